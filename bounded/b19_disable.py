"""Bounded stand-in for C19: disabling checks makes decorated code behave exactly like plain code.

Oracle (from the statement): a switch value is accepted iff it is a bool or a str whose lower() is one of 0/1/true/false
(anything else -> ValueError); while checking is off (environment variable at import, config.update at any moment, or
typing.no_type_check above/below the decorator) every decorated callable must be indistinguishable from the SAME source
exec'd with an identity decorator (the undecorated code): same result object / same exception type, body run once with the
same argument objects, no jaxtyping context opened around the body (stack depth inside the body == outside; two
contradictory manual isinstance checks inside the body agree with the plain code), stack depth after == before. When
checking is switched back on the SAME decorated object must check again: ill-typed argument lists (ill-typed by
construction) raise jaxtyping.TypeCheckError without running the body.
"""
import dataclasses
import importlib
import json
import os
import random
import shutil
import subprocess
import sys
import tempfile
import time
import types
import typing
import warnings
from concurrent.futures import ThreadPoolExecutor

sys.dont_write_bytecode = True  # never write __pycache__ into /verif or the repo

try:
    import _common
except ImportError:  # imported as bounded.b19_disable
    from bounded import _common

ENV_VALUES = [None, "0", "1", "true", "True", "TRUE", "false", "FALSE", "yes", "2", ""]
ENV_VALUES_THOROUGH = ENV_VALUES + ["False", "tRuE", "fAlSe", "on", "off", "no", " 1", "1 ", "01", "00", "y", "t", "none", "-1", "1.0"]
UPDATE_VALUES = [True, False, "0", "1", "true", "false", "TrUe", "TRUE", "False", "FALSE", "yes", "no", "on", "", " 1", "1 ", "2",
                 "01", 1, 0, 2, -1, 1.0, 0.0, None, b"1", b"true", ["1"], ("true",)]
NAMES_DISABLE = ["jaxtyping_disable", "JAXTYPING_DISABLE", "JaxTyping_Disable", "jAXTYPING_dISABLE"]
NAMES_REMOVE = ["jaxtyping_remove_typechecker_stack", "JAXTYPING_REMOVE_TYPECHECKER_STACK", "Jaxtyping_Remove_Typechecker_Stack"]
TRUE_SPELLINGS = [True, "1", "true", "True", "TRUE", "tRuE"]
FALSE_SPELLINGS = [False, "0", "false", "False", "FALSE", "fAlSe"]


def accepted(value):
    """the statement's table: -> (True, bool) or (False, None)"""
    if isinstance(value, bool):
        return True, value
    if isinstance(value, str):
        low = value.lower()
        if low in ("1", "true"):
            return True, True
        if low in ("0", "false"):
            return True, False
    return False, None


# ----------------------------------------------------------------------------------------------------------------------
# targets: source exec'd with _DEC = identity (plain twin) and _DEC = decorator under test
# ----------------------------------------------------------------------------------------------------------------------
SIG = "x: _F, y: _F, k: _I = 3, *args: _I, **kw: _I"
BODY = "_LOG.append((_PROBE(), x, y, k, args, kw))\n    return _OUT()\n"


def fn_source(pre="", post=""):
    return "%s@_DEC\n%sdef f(%s) -> _F:\n    %s" % (pre, post, SIG, BODY)


PO_SOURCE = ("@_DEC\ndef f(x: _F, y: _I = 3, /, **kw: _I) -> _F:\n    _LOG.append((_PROBE(), x, y, None, (), kw))\n    return _OUT()\n")
CLS_SOURCE = ("class C:\n"
              "    @_DEC\n    def m(self, %s) -> _F:\n        _LOG.append((_PROBE(), x, y, k, args, kw))\n        return _OUT()\n"
              "    @_DEC\n    @classmethod\n    def cm(cls, %s) -> _F:\n        _LOG.append((_PROBE(), x, y, k, args, kw))\n        return _OUT()\n"
              "    @_DEC\n    @staticmethod\n    def sm(%s) -> _F:\n        _LOG.append((_PROBE(), x, y, k, args, kw))\n        return _OUT()\n"
              "    @_DEC\n    @property\n    def p(self) -> _F:\n        _LOG.append((_PROBE(), None, None, None, (), {}))\n        return _OUT()\n"
              ) % (SIG, SIG, SIG)
NTC_CLS_SOURCE = ("class C:\n"
                  "    @typing.no_type_check\n    @_DEC\n    def above(self, %s) -> _F:\n        _LOG.append((_PROBE(), x, y, k, args, kw))\n        return _OUT()\n"
                  "    @_DEC\n    @typing.no_type_check\n    def below(self, %s) -> _F:\n        _LOG.append((_PROBE(), x, y, k, args, kw))\n        return _OUT()\n"
                  ) % (SIG, SIG)
DC_SOURCE = ("@_DEC\n@dataclasses.dataclass\nclass D:\n    x: _F\n    y: _F\n    k: _I = 3\n"
             "    def __post_init__(self):\n        _LOG.append((_PROBE(), self.x, self.y, self.k, (), {}))\n        _OUT()\n")
MODULE_SOURCE = ("import dataclasses\nimport numpy as np\nfrom jaxtyping import Float\nimport b19shared as _S\n"
                 "_F = Float[np.ndarray, 'a']\n_I = int\n_LOG = _S.LOG\n_PROBE = _S.probe\n_OUT = _S.out\n"
                 "def _DEC(f):\n    return f\n" +
                 fn_source().replace("@_DEC\n", "") + CLS_SOURCE.replace("    @_DEC\n", "") + DC_SOURCE.replace("@_DEC\n", ""))


class Shared:
    """state shared by a decorated object and its plain twin"""

    def __init__(self, jt, np):
        import jaxtyping._storage as storage
        self.jt, self.np, self.storage = jt, np, storage
        self.LOG = []
        self.mode = "return"
        self.RES = np.zeros(3, dtype=np.float32)
        self.BAD = "ill-typed result"
        self.EXC = ValueError("raised by the body")
        self.ZQ = jt.Float[np.ndarray, "zq"]
        self.z2, self.z3 = np.zeros(2, dtype=np.float32), np.zeros(3, dtype=np.float32)

    def depth(self):
        holder = getattr(self.storage, "_shape_storage", None)
        stack = getattr(holder, "memo_stack", None) if holder is not None else None
        return len(stack) if stack is not None else 0

    def probe(self):
        # depth inside the body + two contradictory manual checks (plain code at top level: both True)
        return (self.depth(), isinstance(self.z2, self.ZQ), isinstance(self.z3, self.ZQ))

    def out(self):
        if self.mode == "raise":
            raise self.EXC
        if self.mode == "badret":
            return self.BAD
        return self.RES


def namespace(shared, dec, source):
    ns = {"__name__": "b19_generated", "_DEC": dec, "_LOG": shared.LOG, "_PROBE": shared.probe, "_OUT": shared.out, "_I": int,
          "_F": shared.jt.Float[shared.np.ndarray, "a"], "typing": typing, "dataclasses": dataclasses}
    with warnings.catch_warnings():
        warnings.simplefilter("ignore")
        exec(compile(source, "<b19 case>", "exec"), ns)
    return ns


class Target:
    """`get(ns)` -> callable; kind decides the oracle when checking is on"""

    def __init__(self, tid, checked_when_on, get, ns_dec, ns_plain, always_plain=False, old_style=False, is_dc=False, is_prop=False, is_po=False):
        self.tid, self.checked_when_on, self.get = tid, checked_when_on, get
        self.dec, self.plain = get(ns_dec), get(ns_plain)
        self.always_plain, self.old_style, self.is_dc, self.is_prop, self.is_po = always_plain, old_style, is_dc, is_prop, is_po


def build_targets(jt, shared, tmpdir, label):
    """decorate everything NOW (under whatever the switch currently is)"""
    import beartype
    import typeguard
    out = []
    ident = lambda f: f  # noqa: E731
    for tcname, tc in (("tg", typeguard.typechecked), ("bt", beartype.beartype)):
        dec = jt.jaxtyped(typechecker=tc)
        nd, npl = namespace(shared, dec, fn_source()), namespace(shared, ident, fn_source())
        out.append(Target("function:" + tcname, True, lambda ns: ns["f"], nd, npl))
        nd, npl = namespace(shared, dec, PO_SOURCE), namespace(shared, ident, PO_SOURCE)
        out.append(Target("function-posonly:" + tcname, True, lambda ns: ns["f"], nd, npl, is_po=True))
        nd, npl = namespace(shared, dec, CLS_SOURCE), namespace(shared, ident, CLS_SOURCE)
        out.append(Target("method:" + tcname, True, lambda ns: ns["C"]().m, nd, npl))
        out.append(Target("classmethod:" + tcname, True, lambda ns: ns["C"].cm, nd, npl))
        out.append(Target("staticmethod:" + tcname, True, lambda ns: ns["C"].sm, nd, npl))
        out.append(Target("property:" + tcname, True, lambda ns: (lambda: ns["C"]().p), nd, npl, is_prop=True))
        nd, npl = namespace(shared, dec, DC_SOURCE), namespace(shared, ident, DC_SOURCE)
        out.append(Target("dataclass-init:" + tcname, True, lambda ns: ns["D"], nd, npl, is_dc=True))
        for where, src in (("above", fn_source(pre="@typing.no_type_check\n")), ("below", fn_source(post="@typing.no_type_check\n"))):
            nd, npl = namespace(shared, dec, src), namespace(shared, ident, src)
            out.append(Target("no_type_check-%s:function:%s" % (where, tcname), False, lambda ns: ns["f"], nd, npl, always_plain=True))
        nd, npl = namespace(shared, dec, NTC_CLS_SOURCE), namespace(shared, ident, NTC_CLS_SOURCE)
        out.append(Target("no_type_check-above:method:" + tcname, False, lambda ns: ns["C"]().above, nd, npl, always_plain=True))
        out.append(Target("no_type_check-below:method:" + tcname, False, lambda ns: ns["C"]().below, nd, npl, always_plain=True))
        # old style: the undecorated code is typechecked(f) - the user's own checker keeps running
        with warnings.catch_warnings():
            warnings.simplefilter("ignore")
            old = lambda f, tc=tc: jt.jaxtyped(tc(f))  # noqa: E731
            nd, npl = namespace(shared, old, fn_source()), namespace(shared, tc, fn_source())
        out.append(Target("old-style:function:" + tcname, False, lambda ns: ns["f"], nd, npl, old_style=True))
        # a module loaded through the import hook
        if tmpdir is not None:
            tcs = {"tg": "typeguard.typechecked", "bt": "beartype.beartype"}[tcname]
            hooked, plainm = "b19mod_%s_%s" % (label, tcname), "b19plain_%s_%s" % (label, tcname)
            for name in (hooked, plainm):
                with open(os.path.join(tmpdir, name + ".py"), "w") as fh:
                    fh.write(MODULE_SOURCE)
            importlib.invalidate_caches()
            with jt.install_import_hook(hooked, tcs):
                mh = importlib.import_module(hooked)
            mp = importlib.import_module(plainm)
            nd, npl = vars(mh), vars(mp)
            out.append(Target("hooked-module:function:" + tcname, True, lambda ns: ns["f"], nd, npl))
            out.append(Target("hooked-module:method:" + tcname, True, lambda ns: ns["C"]().m, nd, npl))
            out.append(Target("hooked-module:classmethod:" + tcname, True, lambda ns: ns["C"].cm, nd, npl))
            out.append(Target("hooked-module:staticmethod:" + tcname, True, lambda ns: ns["C"].sm, nd, npl))
            out.append(Target("hooked-module:dataclass-init:" + tcname, True, lambda ns: ns["D"], nd, npl, is_dc=True))
    nd, npl = namespace(shared, jt.jaxtyped(typechecker=None), fn_source()), namespace(shared, ident, fn_source())
    out.append(Target("function:typechecker=None", False, lambda ns: ns["f"], nd, npl))
    if tmpdir is not None:
        # a module hooked with the checker None whose function carries typing.no_type_check (the hook decorates innermost, so the mark sits on the
        # wrapper): it must behave like the plain module whatever the switch says
        header = MODULE_SOURCE.split("def _DEC(f):")[0] + "import typing\ndef _DEC(f):\n    return f\n"
        src = header + fn_source(pre="@typing.no_type_check\n").replace("@_DEC\n", "")
        hooked, plainm = "b19none_%s" % label, "b19noneplain_%s" % label
        for name in (hooked, plainm):
            with open(os.path.join(tmpdir, name + ".py"), "w") as fh:
                fh.write(src)
        importlib.invalidate_caches()
        with jt.install_import_hook(hooked, None):
            mh = importlib.import_module(hooked)
        mp = importlib.import_module(plainm)
        out.append(Target("hooked-module-None:no_type_check-function", False, lambda ns: ns["f"], vars(mh), vars(mp), always_plain=True))
    return out


def arglists(shared, target):
    """-> list of (label, class, args, kwargs, body mode); class in well / ill / illret / nonbinding"""
    np = shared.np
    F = lambda *s: np.zeros(s, dtype=np.float32)  # noqa: E731
    big = lambda i: int(str(10**12 + i))  # noqa: E731
    if target.is_prop:
        return [("get", "well", (), {}, "return"), ("get-raise", "well", (), {}, "raise"), ("get-ill-typed-result", "illret", (), {}, "badret")]
    if target.is_po:
        # def f(x, y=3, /, **kw): f(x, y=5) binds natively (y == 3, kw == {'y': 5}).  With checking ON this input class is
        # C07's (b07 case C07:omitted-posonly-name-as-kwargs-key); here it is evaluated only while checking is OFF.
        return [("minimal", "well", (F(3),), {}, "return"), ("both", "well", (F(3), big(11)), {"z": big(12)}, "return"),
                ("posonly-name-as-kwargs-key", "well-offonly", (F(3),), {"y": big(13)}, "return"),
                ("ill:str-for-array", "ill", ("no array",), {}, "return"), ("ill:str-for-int", "ill", (F(3), "y"), {}, "return"),
                ("nonbinding:missing", "nonbinding", (), {}, "return"), ("nonbinding:too-many", "nonbinding", (F(3), big(14), big(15)), {}, "return")]
    out = [("minimal", "well", (F(3), F(3)), {}, "return"),
           ("body-raises", "well", (F(3), F(3)), {}, "raise"),
           ("ill:str-for-array", "ill", ("no array", F(3)), {}, "return"),
           ("ill:axis-sizes-2-vs-3", "ill-cross", (F(2), F(3)), {}, "return"),
           ("ill:rank-2", "ill", (F(2, 2), F(3)), {}, "return"),
           ("ill:int-array", "ill", (np.zeros(3, dtype=np.int32), F(3)), {}, "return"),
           ("ill:str-for-int", "ill", (F(3), F(3), "k"), {}, "return"),
           ("nonbinding:missing", "nonbinding", (F(3),), {}, "return"),
           ("nonbinding:duplicate", "nonbinding", (F(3), F(3)), {"x": F(3)}, "return")]
    if target.is_dc:
        out += [("all-fields", "well", (F(3), F(3), big(1)), {}, "return"),
                ("keywords", "well", (), {"y": F(3), "x": F(3), "k": big(2)}, "return"),
                ("nonbinding:unexpected-keyword", "nonbinding", (F(3), F(3)), {"zz": 1}, "return")]
        out = [o for o in out if o[0] != "nonbinding:duplicate"] + [("nonbinding:duplicate", "nonbinding", (F(3), F(3)), {"x": F(3)}, "return")]
    else:
        out += [("maximal", "well", (F(3), F(3), big(3), big(4), big(5)), {"z": big(6), "ret0": big(7)}, "return"),
                ("keywords", "well", (), {"y": F(3), "x": F(3), "k": big(8), "args": big(9)}, "return"),
                ("ill:str-in-varargs", "ill", (F(3), F(3), big(10), "x"), {}, "return"),
                ("ill:str-in-varkw", "ill", (F(3), F(3)), {"z": "x"}, "return"),
                ("ill-typed-result", "illret", (F(3), F(3)), {}, "badret")]
    return out


def observe(shared, fn, args, kwargs, mode):
    shared.mode = mode
    del shared.LOG[:]
    d0 = shared.depth()
    try:
        oc = ("ret", fn(*args, **kwargs))
    except BaseException as e:  # noqa: BLE001 - results, not crashes
        oc = ("exc", e)
    return {"oc": oc, "log": list(shared.LOG), "d0": d0, "d1": shared.depth()}


def show(ob):
    oc = ob["oc"]
    s = "%s:%s" % (oc[0], type(oc[1]).__name__)
    if oc[0] == "exc":
        s += ":" + str(oc[1])[:80].replace("\n", " ")
    probes = [r[0] for r in ob["log"]]
    return "%s; body ran %d time(s); (depth in body, check zq=2, check zq=3)=%s; depth before/after=%s/%s" % (
        s, len(ob["log"]), probes, ob["d0"], ob["d1"])


def same_objects(r0, r1):
    for a, b in zip(r0[1:], r1[1:]):
        if isinstance(a, tuple):
            if not isinstance(b, tuple) or len(a) != len(b) or any(p is not q for p, q in zip(a, b)):
                return False
        elif isinstance(a, dict):
            if not isinstance(b, dict) or list(a) != list(b) or any(a[k] is not b[k] for k in a):
                return False
        elif a is not b:
            return False
    return True


def judge(shared, target, cls, off, od, op):
    """violated clauses, given observation od of the decorated object and op of the plain twin; off = checking switched off"""
    jt = shared.jt
    v = []
    if od["d1"] != od["d0"]:
        v.append("stack-depth-after-call")
    plain_like = off or target.always_plain
    if target.old_style:
        # only: same result / exception type and body count as typechecked(f); cross-argument lists excluded by the caller
        if od["oc"][0] != op["oc"][0] or (od["oc"][0] == "ret" and od["oc"][1] is not op["oc"][1]) or \
                (od["oc"][0] == "exc" and type(od["oc"][1]) is not type(op["oc"][1])):
            v.append("same-outcome-as-typechecked(f)")
        if len(od["log"]) != len(op["log"]):
            v.append("body-run-count")
        return v
    if plain_like or cls == "well" or not target.checked_when_on or cls == "nonbinding":
        # must be indistinguishable from the plain twin
        a, b = od["oc"], op["oc"]
        if a[0] != b[0]:
            v.append("same-result-or-exception")
        elif a[0] == "ret":
            if target.is_dc:
                if type(a[1]).__name__ != type(b[1]).__name__ or any(getattr(a[1], f) is not getattr(b[1], f) for f in ("x", "y", "k")):
                    v.append("same-result-or-exception")
            elif a[1] is not b[1]:
                v.append("same-result-or-exception")
        else:
            if type(a[1]) is not type(b[1]) or (b[1] is shared.EXC and a[1] is not shared.EXC):
                v.append("same-result-or-exception")
        if len(od["log"]) != len(op["log"]):
            v.append("body-run-count")
        elif od["log"] and not same_objects(od["log"][0], op["log"][0]):
            v.append("same-argument-objects")
        if plain_like and od["log"] and op["log"]:
            pd, pp = od["log"][0][0], op["log"][0][0]
            if pd[0] != od["d0"]:
                v.append("no-context-opened(depth-in-body)")
            if pd[1:] != pp[1:]:
                v.append("no-context-opened(manual-checks-in-body)")
        return v
    # checking is ON, target is checked, list is ill-typed by construction
    a = od["oc"]
    if a[0] != "exc" or not isinstance(a[1], jt.TypeCheckError):
        v.append("checking-restored(raises-TypeCheckError)")
    want = 1 if cls == "illret" else 0
    if len(od["log"]) != want:
        v.append("checking-restored(body-run-count)")
    return v


def evaluate_all(shared, targets, off, moment, switch, tally, record, stats):
    for t in targets:
        for label, cls, args, kwargs, mode in arglists(shared, t):
            if t.old_style and cls == "ill-cross":
                stats["excluded_old_style_cross_argument"] += 1
                continue
            if cls == "well-offonly" and not (off or t.always_plain):
                stats["excluded_posonly_key_while_on"] += 1
                continue
            c = {"ill-cross": "ill", "well-offonly": "well"}.get(cls, cls)
            op = observe(shared, t.plain, args, kwargs, mode)
            od = observe(shared, t.dec, args, kwargs, mode)
            tally.case((t.tid, switch, moment, label, off), sample={"target": t.tid, "switch": switch, "moment": moment, "arguments": label,
                                                                  "checking_off": off, "decorated": show(od), "plain": show(op)})
            stats["behaviour"] += 1
            for clause in judge(shared, t, c, off, od, op):
                if t.tid == "function:typechecker=None":
                    # one input class of its own: jaxtyped(typechecker=None) (a documented new-style use) under the switch
                    cid = "C19:typechecker=None-ignores-disable:%s" % clause.split("(")[0]
                else:
                    cid = "C19:behaviour:%s:%s:%s:%s:%s" % (t.tid, switch, moment, c, clause.split("(")[0])
                record(cid, clause,
                       {"target": t.tid, "switch": switch, "moment": moment, "arguments": label, "checking_off": off},
                       "plain twin: " + show(op) if (off or c in ("well", "nonbinding")) else "TypeCheckError, body not run (ill-typed by construction)",
                       "decorated: " + show(od), t, label)


# ----------------------------------------------------------------------------------------------------------------------
NONE_SNIPPET = ("import numpy as np, jaxtyping\nfrom jaxtyping import jaxtyped, Float\n"
                "def plain(x, y):\n    return isinstance(x, Float[np.ndarray, 'zq']), isinstance(y, Float[np.ndarray, 'zq'])\n"
                "dec = jaxtyped(typechecker=None)(plain)\njaxtyping.config.update('jaxtyping_disable', True)\n"
                "a, b = np.zeros(2, np.float32), np.zeros(3, np.float32)\n"
                "print(plain(a, b), dec(a, b))  # expected the same: (True, True) (True, True)")


def snippet_for(cid, target):
    if target is not None and target.tid == "function:typechecker=None":
        return NONE_SNIPPET
    return ("# PYTHONPATH=<repo>:/verif ; re-runs the matrix and prints the disagreements of this input class\n"
            "from bounded.b19_disable import replay\nreplay(%r)" % cid)


def replay(case, env_value="1"):
    """re-run and print the failures whose case id equals / contains `case` (ids ending in :env-value-* need a child process
    with JAXTYPING_DISABLE set: pass env_value, e.g. '1' or '0')"""
    import jaxtyping as jt
    base = case.split(":env-value-")[0]
    if ":env:" in base or ":env+config.update:" in base:
        repo = os.path.dirname(os.path.dirname(os.path.abspath(jt.__file__)))
        if case.endswith(":env-value-false"):
            env_value = "0"
        res = run_child(repo, "JAXTYPING_DISABLE", env_value, False)
        fails = res.get("failures", [])
    else:
        tally = _common.Tally(max_failures=10000)
        run_in_process(jt, tally, dict.fromkeys(STAT_KEYS, 0), random.Random(0), "quick")
        fails = tally.failures
    hits = [f for f in fails if base in f["case"]]
    for f in hits:
        print(json.dumps({k: f[k] for k in ("case", "clause", "input", "expected", "actual")}, default=repr))
    if not hits:
        print("no disagreement for this input class")
    return hits


N_RANDOM_TOGGLES = {"quick": 4, "thorough": 120}
STAT_KEYS = ["behaviour", "config_update", "env", "excluded_old_style_cross_argument", "excluded_posonly_key_while_on"]


def make_recorder(tally, seen):
    def record(cid, clause, inp, expected, actual, target=None, label=None):
        if cid in seen:
            seen[cid] += 1
            return
        seen[cid] = 1
        tally.fail(cid, clause, input=inp, expected=expected, actual=actual,
                   snippet=snippet_for(cid, target) if target is not None else inp.get("snippet", ""))
    return record


def set_switch(jt, rng, off, record=None):
    """flip the switch with a random ACCEPTED spelling; a rejection is a result (recorded), then fall back"""
    name = rng.choice(NAMES_DISABLE)
    value = rng.choice(TRUE_SPELLINGS if off else FALSE_SPELLINGS)
    for n, v in ((name, value), ("jaxtyping_disable", off)):
        try:
            jt.config.update(n, v)
            return "config.update(%r, %r)" % (n, v)
        except BaseException as e:  # noqa: BLE001
            if record is not None:
                record("C19:toggle:config.update(%r, %r):accepts" % (n, v), "accepts-0/1/true/false-any-case-and-bools",
                       {"name": n, "value": repr(v), "snippet": "import jaxtyping\njaxtyping.config.update(%r, %r)" % (n, v)},
                       "accepted", "%s: %s" % (type(e).__name__, str(e)[:100]))
    jt.config.jaxtyping_disable = off  # last resort so that the rest of the matrix can still be evaluated
    return "config.jaxtyping_disable = %r" % off


def run_in_process(jt, tally, stats, rng, tier, seen=None):
    import numpy as np
    seen = {} if seen is None else seen
    record = make_recorder(tally, seen)
    shared = Shared(jt, np)
    tmpdir = tempfile.mkdtemp(prefix="b19_")
    sys.path.insert(0, tmpdir)
    shared_mod = types.ModuleType("b19shared")
    shared_mod.LOG, shared_mod.probe, shared_mod.out = shared.LOG, shared.probe, shared.out
    sys.modules["b19shared"] = shared_mod
    initial = bool(getattr(jt.config, "jaxtyping_disable", False))
    try:
        # ---- config.update: acceptance table -----------------------------------------------------------------------
        nd = namespace(shared, jt.jaxtyped(typechecker=__import__("typeguard").typechecked), fn_source())
        probe_args = (np.zeros(2, dtype=np.float32), np.zeros(3, dtype=np.float32))

        def behaves_disabled():
            o = observe(shared, nd["f"], probe_args, {}, "return")
            return len(o["log"]) == 1 and o["oc"][0] == "ret"

        for names, attr in ((NAMES_DISABLE, "jaxtyping_disable"), (NAMES_REMOVE, "jaxtyping_remove_typechecker_stack")):
            for name in names:
                for prior in (False, True):
                    for value in UPDATE_VALUES:
                        jt.config.update(attr, prior)
                        ok, want = accepted(value)
                        try:
                            jt.config.update(name, value)
                            got = "accepted"
                        except ValueError:
                            got = "ValueError"
                        except BaseException as e:  # noqa: BLE001
                            got = type(e).__name__
                        now = getattr(jt.config, attr, None)
                        eff = behaves_disabled() if attr == "jaxtyping_disable" else now
                        tally.case(("update", name, repr(value), prior))
                        stats["config_update"] += 1
                        snip = ("import jaxtyping\njaxtyping.config.update(%r, %r)\njaxtyping.config.update(%r, %r)  # expected: %s\n"
                                "print(jaxtyping.config.%s)" % (attr, prior, name, value, "accepted -> %r" % want if ok else "ValueError", attr))
                        cid = "C19:config.update:%s:%s(%r)" % (name, type(value).__name__, value)
                        inp = {"name": name, "value": repr(value), "prior": prior, "snippet": snip}
                        if ok and got != "accepted":
                            record(cid + ":accepts", "accepts-0/1/true/false-any-case-and-bools", inp, "accepted, switch = %r" % want, got)
                        elif not ok and got != "ValueError":
                            record(cid + ":rejects", "anything-else-ValueError", inp, "ValueError", "%s, switch now %r" % (got, now))
                        elif ok and (now is not want or eff is not want):
                            record(cid + ":effective", "accepted-value-takes-effect", inp, "switch = %r" % want,
                                   "attribute %r, behaves-as-switched %r" % (now, eff))
                        elif not ok and (now is not prior or eff is not prior):
                            record(cid + ":rejected-keeps-state", "rejected-update-changes-nothing", inp, "switch stays %r" % prior,
                                   "attribute %r, behaves-as-switched %r" % (now, eff))
            jt.config.update(attr, False)
        # ---- behaviour: toggling relative to decoration --------------------------------------------------------------
        set_switch(jt, rng, True, record)
        early = build_targets(jt, shared, tmpdir, "early")  # decorated / imported while checking is OFF
        evaluate_all(shared, early, True, "off-before-decoration", "config.update", tally, record, stats)
        set_switch(jt, rng, False, record)
        evaluate_all(shared, early, False, "on-again-after-decoration-while-off", "config.update", tally, record, stats)
        late = build_targets(jt, shared, tmpdir, "late")  # decorated / imported while checking is ON
        evaluate_all(shared, late, False, "on-at-decoration", "config.update", tally, record, stats)
        set_switch(jt, rng, True, record)
        evaluate_all(shared, late, True, "off-after-decoration", "config.update", tally, record, stats)
        evaluate_all(shared, early, True, "off-again", "config.update", tally, record, stats)
        set_switch(jt, rng, False, record)
        evaluate_all(shared, late, False, "on-again", "config.update", tally, record, stats)
        # the switch is process-wide: set in one thread, observed by calls made in another (both directions)
        import threading

        def in_thread(fn_):
            box = []
            th = threading.Thread(target=lambda: box.append(fn_()))
            th.start()
            th.join()
            return box

        set_switch(jt, rng, True, record)
        in_thread(lambda: evaluate_all(shared, late, True, "off-set-in-main-thread:called-in-worker-thread", "config.update", tally, record, stats))
        in_thread(lambda: set_switch(jt, rng, False, record))
        evaluate_all(shared, late, False, "on-set-in-worker-thread:called-in-main-thread", "config.update", tally, record, stats)
        in_thread(lambda: set_switch(jt, rng, True, record))
        in_thread(lambda: evaluate_all(shared, early, True, "off-set-in-worker-thread:called-in-another-worker-thread", "config.update", tally, record, stats))
        set_switch(jt, rng, False, record)
        # random toggle sequences
        n = N_RANDOM_TOGGLES[tier]
        pools = [("decorated-while-off", early), ("decorated-while-on", late)]
        for i in range(n):
            state = rng.random() < 0.5
            set_switch(jt, rng, state, record)
            if i % 20 == 10:  # decorate / import a fresh set at this (random) moment of the toggle history
                pools.append(("decorated-while-%s" % ("off" if state else "on"), build_targets(jt, shared, tmpdir, "r%d" % i)))
            origin, pool = rng.choice(pools)
            evaluate_all(shared, pool, state, "random-toggle:%s:now-%s" % (origin, "off" if state else "on"), "config.update",
                         tally, record, stats)
    finally:
        try:
            jt.config.update("jaxtyping_disable", initial)
            jt.config.update("jaxtyping_remove_typechecker_stack", False)
        except Exception:  # noqa: BLE001
            pass
        sys.path.remove(tmpdir)
        for k in [k for k in sys.modules if k.startswith(("b19mod_", "b19plain_", "b19shared"))]:
            del sys.modules[k]
        shutil.rmtree(tmpdir, ignore_errors=True)
    return seen


# ----------------------------------------------------------------------------------------------------------------------
# child process: the switch comes from the environment, read at import
# ----------------------------------------------------------------------------------------------------------------------
def child_main():
    out = {}
    try:
        import jaxtyping as jt
        out["import"] = "ok"
        out["jaxtyping_from"] = os.path.realpath(os.path.dirname(os.path.dirname(jt.__file__)))
    except ValueError as e:
        out["import"] = "ValueError"
        out["message"] = str(e)[:200]
    except BaseException as e:  # noqa: BLE001
        out["import"] = type(e).__name__
        out["message"] = str(e)[:200]
    if out["import"] == "ok":
        import numpy as np
        out["disable_attr"] = getattr(jt.config, "jaxtyping_disable", None)
        out["remove_attr"] = getattr(jt.config, "jaxtyping_remove_typechecker_stack", None)
        if "--light" not in sys.argv:
            tally = _common.Tally(max_failures=200)
            stats = dict.fromkeys(STAT_KEYS, 0)
            record = make_recorder(tally, {})
            shared = Shared(jt, np)
            tmpdir = tempfile.mkdtemp(prefix="b19c_")
            sys.path.insert(0, tmpdir)
            shared_mod = types.ModuleType("b19shared")
            shared_mod.LOG, shared_mod.probe, shared_mod.out = shared.LOG, shared.probe, shared.out
            sys.modules["b19shared"] = shared_mod
            try:
                targets = build_targets(jt, shared, tmpdir, "env")
                f = [t for t in targets if t.tid == "function:tg"][0]
                o = observe(shared, f.dec, (np.zeros(2, dtype=np.float32), np.zeros(3, dtype=np.float32)), {}, "return")
                off = len(o["log"]) == 1 and o["oc"][0] == "ret"
                out["behaves_disabled"] = off
                evaluate_all(shared, targets, off, "as-imported", "env", tally, record, stats)
                # switching the other way at run time, no re-decoration
                set_switch(jt, random.Random(0), not off, record)
                evaluate_all(shared, targets, not off, "toggled-after-import", "env+config.update", tally, record, stats)
            finally:
                sys.path.remove(tmpdir)
                shutil.rmtree(tmpdir, ignore_errors=True)
            out["failures"] = tally.failures
            out["evaluations"] = tally.evaluations
    print("B19CHILD " + json.dumps(out, default=repr))


def run_child(repo, var, value, light):
    env = dict(os.environ)
    env.pop("JAXTYPING_DISABLE", None)
    env.pop("JAXTYPING_REMOVE_TYPECHECKER_STACK", None)
    if value is not None:
        env[var] = value
    env["PYTHONPATH"] = repo + os.pathsep + os.path.dirname(os.path.dirname(os.path.abspath(__file__)))
    env.setdefault("JAX_PLATFORMS", "cpu")
    env["PYTHONDONTWRITEBYTECODE"] = "1"
    cmd = [sys.executable, os.path.abspath(__file__), "--child", "--repo", repo] + (["--light"] if light else [])
    r = subprocess.run(cmd, capture_output=True, text=True, env=env, cwd=tempfile.gettempdir(), timeout=300)
    for line in r.stdout.splitlines():
        if line.startswith("B19CHILD "):
            return json.loads(line[9:])
    return {"import": "child-crashed", "message": (r.stderr or r.stdout)[-400:]}



def _scrub(x):
    """remove process-dependent addresses so that the output is identical for identical seeds"""
    import re
    if isinstance(x, str):
        return re.sub(r"0x[0-9a-fA-F]+", "0x...", x)
    if isinstance(x, list):
        return [_scrub(v) for v in x]
    if isinstance(x, tuple):
        return [_scrub(v) for v in x]
    if isinstance(x, dict):
        return {k: _scrub(v) for k, v in x.items()}
    return x


def main():
    if "--child" in sys.argv:
        child_main()
        return
    a = _common.setup(__doc__)
    import jaxtyping as jt
    tally = _common.Tally(max_failures=60)
    rng = random.Random(a.seed)
    stats = dict.fromkeys(STAT_KEYS, 0)
    seen = {}
    record = make_recorder(tally, seen)
    # ---- environment variables, fresh interpreter each --------------------------------------------------------------
    values = ENV_VALUES if a.tier == "quick" else ENV_VALUES_THOROUGH
    jobs = [("JAXTYPING_DISABLE", v, False) for v in values] + [("JAXTYPING_REMOVE_TYPECHECKER_STACK", v, True) for v in values]
    with ThreadPoolExecutor(max_workers=7) as ex:
        results = list(ex.map(lambda j: run_child(a.repo, *j), jobs))
    for (var, value, light), res in zip(jobs, results):
        ok, want = accepted(value) if value is not None else (True, False)
        shown = "unset" if value is None else repr(value)
        tally.case(("env", var, shown), sample={"env": "%s=%s" % (var, shown), "child": {k: v for k, v in res.items() if k != "failures"}})
        stats["env"] += 1
        snip = ("import os, subprocess, sys\nenv = dict(os.environ%s)\n"
                "print(subprocess.run([sys.executable, '-c', 'import jaxtyping; print(jaxtyping.config.%s)'], env=env, capture_output=True, text=True))"
                % ("" if value is None else ", %s=%r" % (var, value),
                   "jaxtyping_disable" if var == "JAXTYPING_DISABLE" else "jaxtyping_remove_typechecker_stack"))
        cid = "C19:env:%s=%s" % (var, shown)
        inp = {"variable": var, "value": shown, "snippet": snip}
        if res["import"] == "child-crashed":
            raise RuntimeError("child crashed: %s" % res.get("message"))
        if res["import"] == "ok" and res.get("jaxtyping_from") != os.path.realpath(a.repo):
            raise RuntimeError("child imported jaxtyping from %s, expected %s" % (res.get("jaxtyping_from"), a.repo))
        if ok and res["import"] != "ok":
            record(cid + ":accepts", "accepts-0/1/true/false-any-case", inp, "import succeeds, switch = %r" % want,
                   "%s: %s" % (res["import"], res.get("message")))
            continue
        if not ok:
            if res["import"] != "ValueError":
                record(cid + ":rejects", "anything-else-ValueError", inp, "ValueError when jaxtyping is imported",
                       "import %s; disable=%r remove_stack=%r" % (res["import"], res.get("disable_attr"), res.get("remove_attr")))
            continue
        attr = res["disable_attr"] if var == "JAXTYPING_DISABLE" else res["remove_attr"]
        other = res["remove_attr"] if var == "JAXTYPING_DISABLE" else res["disable_attr"]
        if attr is not want or other is not False or (not light and res.get("behaves_disabled") is not want):
            record(cid + ":effective", "accepted-value-takes-effect", inp, "switch = %r (the other switch stays False)" % want,
                   "attribute %r, other switch %r, behaves-as-disabled %r" % (attr, other, res.get("behaves_disabled")))
        for f in res.get("failures", []):
            stats["behaviour"] += 1
            cid2 = f["case"] if f["case"].startswith("C19:typechecker=None") else f["case"] + ":" + ("env-value-" + ("true" if want else "false"))
            if cid2 in seen:
                seen[cid2] += 1
                continue
            seen[cid2] = 1
            f = dict(f, case=cid2)
            f["input"] = dict(f.get("input") or {}, env="%s=%s" % (var, shown))
            f["snippet"] = "# run with %s=%s in the environment\n" % (var, shown) + f.get("snippet", "")
            if len(tally.failures) < tally.max_failures:
                tally.failures.append(f)
        tally.evaluations += res.get("evaluations", 0)
    # ---- everything that can be switched inside one process -----------------------------------------------------------
    run_in_process(jt, tally, stats, rng, a.tier, seen)
    for f in tally.failures:
        f["occurrences"] = seen.get(f["case"], 1)
    tally.failures = _scrub(tally.failures)
    tally.samples = _scrub(tally.samples)
    _common.emit(
        tally,
        bound=("(a) JAXTYPING_DISABLE and JAXTYPING_REMOVE_TYPECHECKER_STACK each in %s, read at import in a fresh interpreter (for "
               "JAXTYPING_DISABLE followed by the whole behaviour matrix, and again after config.update to the opposite value); "
               "(b) config.update(name, value) for name in %s and value in %s from both prior states; (c) behaviour matrix: targets = "
               "function, method, classmethod, staticmethod, property getter, dataclass __init__ (new style, typeguard and beartype), "
               "typing.no_type_check above / below the decorator on functions and methods (no_type_check on classes, classmethod/"
               "staticmethod objects not enumerated - statement names the decorator position only), jaxtyped(typechecker=None), the same "
               "kinds in a module imported through install_import_hook from a temp dir, and old style jaxtyped(typechecked(f)); "
               "moments: switched off before decoration/import, on again, decorated while on, off after decoration, off again, on again, "
               "+ %s random toggles with random accepted spellings (fresh decoration/import at every 20th); argument lists: 4-5 well-typed (minimal, maximal with *args/**kw, "
               "keywords, body raising), 6-8 ill-typed by construction (str for array, axis sizes 2 vs 3, rank, dtype, str for int, in "
               "*args, in **kw, ill-typed result), 2-3 non-binding. Old style under disable: the user's own checker still runs, so it is "
               "compared ONLY with typechecked(f) for result / exception type / body count, never on context depth, and cross-argument "
               "axis lists are excluded (typechecked(f) alone is stateless there; interpretation recorded in DESIGN C19)."
               % (["unset" if v is None else v for v in values], NAMES_DISABLE + NAMES_REMOVE, [repr(v) for v in UPDATE_VALUES],
                  N_RANDOM_TOGGLES[a.tier])),
        rule=("oracle for acceptance = the statement's table (bool, or str with lower() in 0/1/true/false); oracle for behaviour = the same "
              "source exec'd with an identity decorator called with the same argument objects: result identity / exception type (identity "
              "for the body's own exception), body count, received-object identity, depth inside body == depth outside, two contradictory "
              "manual isinstance checks in the body agree with plain code, depth after == before; with checking on, ill-typed lists must "
              "raise TypeCheckError with the body not run (once for an ill-typed result). distinct = (target, switch, moment, argument "
              "list, state)"),
        exhaustive=False,
        stats=stats,
        seconds=round(time.time() - a.t0, 1),
    )


if __name__ == "__main__":
    main()
