"""runs tools_eval_harmless.sh over every kept behaviour-preserving refactoring /verif/harmless/<Cxx-hK> (or the dirs given), restricted to the checks whose units read a touched file; 3 patches at a time"""
import glob, os, re, subprocess, sys
from concurrent.futures import ThreadPoolExecutor
MAP = {"_array_types.py": "C01 C02 C03 C04 C12 C13 C14 C15 C16 C17 C20", "_decorator.py": "C02 C05 C06 C07 C12 C13 C17 C19", "_storage.py": "C01 C02 C04 C05 C06 C07 C08 C09 C12 C13 C16",
       "_pytree_type.py": "C01 C02 C03 C04 C06 C08 C09 C12 C13 C16 C17", "_import_hook.py": "C10 C11 C17 C18 C19", "_config.py": "C19", "_pytest_plugin.py": "C11", "_ipython_extension.py": "C10 C11"}
ALL = " ".join(f"C{i:02d}" for i in range(1, 21))
dirs = sys.argv[1:] or sorted(glob.glob("/verif/harmless/*"))
def run(d):
    files = set(re.findall(r"^\+\+\+ b/jaxtyping/(\S+)", open(os.path.join(d, "patch.diff")).read(), re.M))
    props = set()
    for f in files:
        props |= set(MAP.get(f, ALL).split())
    p = subprocess.run(["/verif/tools_eval_harmless.sh", d] + sorted(props), capture_output=True, text=True)
    return d, sorted(files), p.stdout
with ThreadPoolExecutor(int(os.environ.get("HARM_JOBS", "3"))) as ex:
    for d, files, out in ex.map(run, dirs):
        print("==", d, files)
        print("\n".join(l for l in out.splitlines() if l.startswith(("NONZERO", "SUMMARY", "APPLY", "demo_rc"))))
        sys.stdout.flush()
