"""Replays counter-models of unit hook. should_instrument: model-driven (name, hooked name) against the statement's
'equals or lies beneath'; other clauses: no native realisation here (the bounded stand-ins b10/b11/b18 find witnesses)."""
import json, sys, argparse
ap = argparse.ArgumentParser(); ap.add_argument("--repo"); a = ap.parse_args()
payload = json.load(sys.stdin)
from pyvc.modelparse import meta
clause = payload.get("obligation", "")
model = payload.get("model") or {}
out = {"reproduced": None, "model_concrete": False}
if "should_instrument" in clause:
    name, mk = meta(model, "name"), meta(model, "module_k")
    if isinstance(name, str) and isinstance(mk, str):
        from jaxtyping._import_hook import _JaxtypingFinder
        got = _JaxtypingFinder([mk], None, None).should_instrument(name)
        want = name == mk or name.startswith(mk + ".")   # equals, or lies beneath as sub-package / sub-module
        out.update(reproduced=(got != want), model_concrete=True, input={"hooked": [mk], "module_name": name}, native={"should_instrument": got}, expected={"should_instrument": want},
                   snippet=f"from jaxtyping._import_hook import _JaxtypingFinder; print(_JaxtypingFinder([{mk!r}], None, None).should_instrument({name!r}))")
    else:
        out["error"] = "model lacks name/module_k"
else:
    out["error"] = "no native realisation for this clause"
print(json.dumps(out, default=str))
