"""Bounded validator of the assumed contract of numpy.broadcast_shapes that the C02 multi-axis lemma (pyvc/lemmas/c02.py,
'variadic' block) uses: 'A broadcasts to S'  :=  broadcast_shapes(A, S) succeeds and equals S  is a partial order on shapes, and
broadcast_shapes(M, P) is the least upper bound of M and P in it whenever an upper bound exists (and fails otherwise).
Oracle: the statement of numpy broadcasting (right aligned, 1 stretches, missing leading axes are 1), written here independently."""
import itertools, sys
import _common


def main():
    a = _common.setup(__doc__)
    import numpy as np
    thorough = a.tier == "thorough"
    maxrank, sizes = (3, (0, 1, 2, 3, 4)) if thorough else (3, (0, 1, 2, 3))
    shapes = [s for r in range(maxrank + 1) for s in itertools.product(sizes, repeat=r)]
    t = _common.Tally()

    def oracle(s, u):
        if len(s) < len(u):
            s, u = u, s
        u = (1,) * (len(s) - len(u)) + tuple(u)
        out = []
        for x, y in zip(s, u):
            if x == y or y == 1:
                out.append(x)
            elif x == 1:
                out.append(y)
            else:
                return None
        return tuple(out)

    bc = {}
    for s in shapes:
        for u in shapes:
            try:
                v = tuple(int(x) for x in np.broadcast_shapes(s, u))
            except ValueError:
                v = None
            bc[s, u] = v
            t.case(("pair", s, u), nontrivial=True, sample={"pair": [s, u], "broadcast": v})
            if v != oracle(s, u):
                t.fail(f"pair:{s}:{u}", "numpy-broadcast-equals-the-documented-rule", input=[s, u], expected=oracle(s, u), actual=v,
                       snippet=f"import numpy as np; print(np.broadcast_shapes({s},{u}))")
    bt = lambda x, s: bc[x, s] == s  # x broadcasts to s
    for s in shapes:
        if not bt(s, s):
            t.fail(f"refl:{s}", "reflexive", input=[s])
    for s, u in itertools.product(shapes, repeat=2):
        t.case(("sym", s, u), nontrivial=False)
        if bc[s, u] != bc[u, s]:
            t.fail(f"sym:{s}:{u}", "symmetric", input=[s, u])
        if bt(s, u) and bt(u, s) and s != u:
            t.fail(f"antisym:{s}:{u}", "antisymmetric", input=[s, u])
        v = bc[s, u]
        if v is not None and (bc.get((s, v), "?") != v or bc.get((u, v), "?") != v):
            t.fail(f"absorb:{s}:{u}", "the-broadcast-is-an-upper-bound", input=[s, u, v])
    for m, p, s in itertools.product(shapes, repeat=3):
        t.case(("lub", m, p, s), nontrivial=False)
        if bt(m, p) and bt(p, s) and not bt(m, s):
            t.fail(f"trans:{m}:{p}:{s}", "transitive", input=[m, p, s])
        if bt(m, s) and bt(p, s):
            v = bc[m, p]
            if v is None or not bt(v, s):
                t.fail(f"lub:{m}:{p}:{s}", "the-broadcast-is-the-least-upper-bound", input=[m, p, s], actual=v)
    _common.emit(t, bound=f"all shapes of rank 0..{maxrank} over sizes {sizes} ({len(shapes)} shapes): every pair for the rule/symmetry/antisymmetry/upper-bound axioms, every triple for transitivity and least-upper-bound",
                 rule="numpy.broadcast_shapes of the installed numpy is compared with the documented broadcasting rule and the five order axioms the C02 variadic lemma assumes are evaluated on it; a pair counts as distinct",
                 exhaustive=True)


if __name__ == "__main__":
    main()
