"""Unit: name hygiene of the synthetic function builder (C07).

_gensym(names, prefix):  loop invariant  output_name == prefix + str(output_index) /\\ output_index >= 0
    ensures  result not in names  /\\  exists i >= 0. result == prefix + str(i)
_make_fn_with_signature -- the annotation/default-name loop (region: the `for ... in triples` statement):
    invariant  Generated subset keys(scope)  /\\  def_name in keys(scope)  /\\  Generated disjoint from param_names
    each iteration: both new names are outside keys(scope) and param_names (callee contract of _gensym), hence
    distinct from every earlier generated name, from every parameter name, from the output name and from the
    def name; they are then entered into scope (so the invariant is preserved).
_make_argpiece: a piece is `name: <its annotation name>[ = <its default name>]`.
The ordering of the pieces and `exec` are covered by the bounded stand-in b07 (assumed contract of exec).
"""
from __future__ import annotations

import ast

import z3

from ..engine import Engine, Raised, is_raised
from ..source import Module
from ..values import BOOL, INT, NONE, NORMAL, STR, U, Cls, DictObj, Exc, Fn, ListObj, Obj, Opaque, Outcome, Ref, State, Tup, Unsupported, Z

NAME = "make_fn"
REL = "jaxtyping/_decorator.py"
SET = z3.ArraySort(STR, BOOL)
from ..engine import str_int  # noqa: E402  (shared with the engine: literal integers fold to their decimal text)
isident = z3.Function("py_str_isidentifier", STR, BOOL)


def build(repo=None):
    mod = Module(REL, repo)
    obligations, functions = [], []
    paths = 0

    # ================================================================== _gensym
    g = mod.func("_gensym")
    functions.append({"qualname": "jaxtyping._decorator._gensym", "sha256_16": mod.sha(g), "lines": [g.lineno, g.end_lineno]})
    eng = Engine(mod)
    names = z3.Const("names", SET)
    prefix = z3.String("prefix")
    st = State()
    gp = [a.arg for a in g.args.args]
    if len(gp) != 2:
        raise Unsupported("_gensym signature")
    st.env = {gp[0]: Z("set:str", names), gp[1]: Z("str", prefix)}
    # requires prefix.isidentifier() (it is the function's own first assert: an obligation for callers)
    st.pc = [isident(prefix)]
    loops = [x for x in ast.walk(g) if isinstance(x, (ast.While, ast.For))]
    if len(loops) != 1:
        raise Unsupported("_gensym: expected exactly one loop")
    loop = loops[0]
    counting = isinstance(loop, ast.For)
    if counting and not (isinstance(loop.iter, ast.Call) and ast.unparse(loop.iter.func) in ("it.count", "itertools.count", "count") and not loop.iter.keywords and not loop.orelse and isinstance(loop.target, ast.Name)
                         and (not loop.iter.args or (len(loop.iter.args) == 1 and isinstance(loop.iter.args[0], ast.Constant) and loop.iter.args[0].value == 0))):
        raise Unsupported("_gensym: a for loop that is not `for <index> in itertools.count()`")
    stored = sorted({n.id for n in ast.walk(loop) if isinstance(n, ast.Name) and isinstance(n.ctx, ast.Store)})
    i = z3.Int("i")
    ident_axiom = lambda k: z3.Implies(z3.And(isident(prefix), k >= 0), isident(z3.Concat(prefix, str_int(k))))

    def find_index_var(s):
        for v in stored:
            x = s.env.get(v)
            if isinstance(x, Z) and x.kind == "int":
                return v
        raise Unsupported("_gensym: no integer loop variable")

    def inv(s, idx_var, name_var):
        idx, nm = s.env[idx_var], s.env[name_var]
        return z3.And(idx.t >= 0, nm.t == z3.Concat(prefix, str_int(idx.t)))

    def while_handler(e, node, s0):
        idx_var = find_index_var(s0)
        name_vars = [v for v in stored if v != idx_var]
        if len(name_vars) != 1:
            raise Unsupported("_gensym: loop modifies unexpected variables")
        name_var = name_vars[0]
        e.oblige(s0, "gensym:loop-invariant-on-entry", inv(s0, idx_var, name_var))
        outs = []
        # arbitrary iteration: havoc the two loop variables under the invariant
        s1 = s0.clone()
        s1.env[idx_var] = Z("int", i)
        s1.env[name_var] = Z("str", z3.Concat(prefix, str_int(i)))
        s1.pc.append(i >= 0)
        for s2, c in e.ev(node.test, s1):
            if is_raised(c):
                outs.append((s2, Outcome("raise", c.exc)))
                continue
            for s3, b in e.branch(s2, e.truth(s2, c)):
                if b:
                    s3.path.append("gensym:iter")
                    for s4, o4 in e.run(node.body, s3):
                        if o4.kind in ("normal", "continue"):
                            e.oblige(s4, "gensym:loop-invariant-preserved", inv(s4, idx_var, name_var))
                            # progress: the index strictly increases (with names finite this gives termination; finiteness is assumed)
                            e.oblige(s4, "gensym:index-strictly-increases", s4.env[idx_var].t > i)
                        else:
                            outs.append((s4, o4))
                else:
                    s3.path.append("gensym:exit")
                    s3.pc.append(ident_axiom(i))
                    outs.append((s3, NORMAL))
        return outs

    def count_handler(e, node, s0):
        # `for index in itertools.count(): ...`: no state is carried between iterations except through the names the body stores, which are
        # havocked; the loop is left only by break / return / raise, at an arbitrary index i >= 0 (0, 1, 2, ... in order)
        s1 = s0.clone()
        for v in stored:
            x = s1.env.get(v)
            if isinstance(x, Z) and x.kind in ("str", "int", "bool"):
                s1.env[v] = Z(x.kind, z3.FreshConst(x.t.sort(), "carried_" + v))
            elif x is not None:
                s1.env[v] = Opaque("carried:" + v)
        s1.env[node.target.id] = Z("int", i)
        s1.pc.append(i >= 0)
        s1.path.append("gensym:iter")
        outs = []
        # nothing is assumed about the carried names, so the invariant is `true`; the index increases by the contract of itertools.count
        e.oblige(s0, "gensym:loop-invariant-on-entry", z3.BoolVal(True))
        for s4, o4 in e.run(node.body, s1):
            if o4.kind in ("normal", "continue"):
                e.oblige(s4, "gensym:loop-invariant-preserved", z3.BoolVal(True))
                e.oblige(s4, "gensym:index-strictly-increases", z3.BoolVal(isinstance(s4.env.get(node.target.id), Z) and s4.env[node.target.id].t.eq(i)))  # the body does not rebind the index
            if o4.kind == "break":
                s4.path.append("gensym:exit")
                s4.pc.append(ident_axiom(i))
                outs.append((s4, NORMAL))
            elif o4.kind in ("normal", "continue"):
                pass  # goes on with the next index, which the arbitrary i covers
            else:
                outs.append((s4, o4))
        return outs

    eng.loop_specs[id(loop)] = count_handler if counting else while_handler
    for s1, o in eng.run(g.body, st):
        paths += 1
        if o.kind == "return" and isinstance(o.val, Z) and o.val.kind == "str":
            eng.oblige(s1, "gensym:result-not-in-names", z3.Not(names[o.val.t]))
            eng.oblige(s1, "gensym:result-is-prefix-plus-a-decimal-index", z3.And(i >= 0, o.val.t == z3.Concat(prefix, str_int(i))))
        elif o.kind == "raise":
            eng.oblige(s1, f"gensym:never-raises-under-its-precondition[{'/'.join(sorted(o.val.classes()))} from {o.val.origin}]", z3.BoolVal(False))
        else:
            eng.oblige(s1, "gensym:returns-a-string", z3.BoolVal(False))
    obligations.extend(st.obl)
    obligations.append({"clause": "canary:gensym-precondition-satisfiable", "kind": "canary", "pc": [isident(prefix), i >= 0, names[z3.Concat(prefix, str_int(i))]], "goal": z3.BoolVal(False), "path": [], "meta": {}})

    # ================================================================== the naming loop of _make_fn_with_signature
    mk = mod.func("_make_fn_with_signature")
    functions.append({"qualname": "jaxtyping._decorator._make_fn_with_signature (annotation/default naming loop)", "sha256_16": mod.sha(mk), "lines": [mk.lineno, mk.end_lineno]})
    name_loops = [x for x in mk.body if isinstance(x, ast.For) and any(isinstance(c, ast.Call) and getattr(c.func, "id", "") == "_gensym" for c in ast.walk(x))]
    if len(name_loops) != 1:
        raise Unsupported("_make_fn_with_signature: expected exactly one top-level naming loop calling _gensym")
    nloop = name_loops[0]
    # which dict is the exec scope: the one passed to exec(...)
    exec_calls = [c for c in ast.walk(mk) if isinstance(c, ast.Call) and getattr(c.func, "id", "") == "exec"]
    if len(exec_calls) != 1 or len(exec_calls[0].args) != 2 or not isinstance(exec_calls[0].args[1], ast.Name):
        raise Unsupported("_make_fn_with_signature: exec(fnstr, scope) not found")
    scope_var = exec_calls[0].args[1].id
    # scope is created as {def_name: None} and nothing writes it before the loop
    idx = mk.body.index(nloop)
    creators = [s for s in mk.body[:idx] if isinstance(s, ast.Assign) and any(getattr(t, "id", None) == scope_var for t in s.targets)]
    ok_create = len(creators) == 1 and isinstance(creators[0].value, ast.Dict) and len(creators[0].value.keys) == 1 and isinstance(creators[0].value.keys[0], ast.Name)
    obligations.append({"clause": "make_fn:scope-starts-as-{def_name:None}", "pc": [], "goal": z3.BoolVal(ok_create), "path": [], "meta": {}})
    if not ok_create:
        raise Unsupported("scope creation not recognised")
    def_var = creators[0].value.keys[0].id
    early_writes = [s for s in mk.body[mk.body.index(creators[0]) + 1 : idx] for n in ast.walk(s)
                    if (isinstance(n, ast.Subscript) and isinstance(n.ctx, (ast.Store, ast.Del)) and getattr(n.value, "id", None) == scope_var)
                    or (isinstance(n, ast.Call) and isinstance(n.func, ast.Attribute) and getattr(n.func.value, "id", None) == scope_var and n.func.attr in ("update", "pop", "clear", "setdefault", "__setitem__"))]
    obligations.append({"clause": "make_fn:scope-not-written-between-creation-and-the-naming-loop", "pc": [], "goal": z3.BoolVal(not early_writes), "path": [], "meta": {}})
    # the `def` header uses def_var, and exec's result is read back under def_var
    hdr = [n for n in ast.walk(mk) if isinstance(n, ast.JoinedStr) and any(isinstance(v, ast.Constant) and isinstance(v.value, str) and v.value.startswith("def ") for v in n.values)]
    hdr_ok = len(hdr) == 1 and isinstance(hdr[0].values[1], ast.FormattedValue) and getattr(hdr[0].values[1].value, "id", None) == def_var
    obligations.append({"clause": "make_fn:def-header-uses-the-identifier-that-scope-was-created-with", "pc": [], "goal": z3.BoolVal(hdr_ok), "path": [], "meta": {}})
    # def_var is `name` only if it is an identifier and not a keyword, else a gensym over the parameter names
    def_assigns = [s for s in ast.walk(mk) if isinstance(s, ast.Assign) and any(getattr(t, "id", None) == def_var for t in s.targets)]
    guarded = False
    for s in mk.body:
        if isinstance(s, ast.If) and any(a in ast.walk(s) for a in def_assigns):
            t = ast.unparse(s.test)
            guarded = "isidentifier()" in t and "iskeyword" in t
    if def_var != "name":
        obligations.append({"clause": "make_fn:def-name-is-the-callable-name-only-if-it-is-an-identifier-and-no-keyword", "pc": [], "goal": z3.BoolVal(guarded), "path": [], "meta": {}})
    else:
        obligations.append({"clause": "make_fn:def-name-is-the-callable-name-only-if-it-is-an-identifier-and-no-keyword", "pc": [], "goal": z3.BoolVal(False), "path": [], "meta": {}})

    eng = Engine(mod)
    param_names = z3.Const("param_names", SET)
    generated = z3.Const("generated", SET)  # ghost: names generated by earlier iterations
    def_name = z3.String("def_name")
    scope_d = z3.Const("scope_keys", SET)
    scope_m = z3.Const("scope_vals", z3.ArraySort(STR, U))

    def m_gensym(e, s, args, kwargs, node):
        if len(args) != 1 or "prefix" not in kwargs:
            if len(args) == 2:
                nm, pf = args
            else:
                raise Unsupported("_gensym call shape")
        else:
            nm, pf = args[0], kwargs["prefix"]
        if not (isinstance(nm, Z) and nm.kind == "set:str" and isinstance(pf, Z) and pf.kind == "str"):
            raise Unsupported(f"_gensym args {nm} {pf}")
        pv = z3.simplify(pf.t)
        pre = z3.BoolVal(pv.as_string().isidentifier()) if z3.is_string_value(pv) else isident(pf.t)
        e.oblige(s, "make_fn:call:_gensym:requires-identifier-prefix", pre)
        r = z3.FreshConst(STR, "gensym")
        k = z3.FreshConst(INT, "gi")
        s1 = s.fork(z3.And(z3.Not(nm.t[r]), k >= 0, r == z3.Concat(pf.t, str_int(k)), isident(r)))
        s1.ghost["new_names"] = s1.ghost.get("new_names", []) + [r]
        return [(s1, Z("str", r))]

    def m_frozenset(e, s, args, node):
        (v,) = args
        if isinstance(v, Opaque) and v.attrs and "__dict__" in v.attrs:
            d = s.get(v.attrs["__dict__"])
            return [(s, Z("set:str", d.d))]
        raise Unsupported("frozenset(...) of something else than dict.keys()")

    def m_or(e, s, a, args, kwargs, node):
        b = args[0]
        if isinstance(a, Z) and isinstance(b, Z) and a.kind == b.kind == "set:str":
            x = z3.FreshConst(STR, "x")
            u = z3.FreshConst(SET, "union")
            # union as a fresh set with its defining property instantiated lazily is awkward; use a lambda array
            return [(s, Z("set:str", z3.Lambda([x], z3.Or(a.t[x], b.t[x]))))]
        return None

    eng.globals["_gensym"] = Fn("_gensym", model=m_gensym)
    eng.method_models["frozenset()"] = m_frozenset
    eng.method_models["__or__"] = m_or
    eng.globals["Any"] = Opaque("sentinel:Any", z3.Const("typing_Any", U))
    eng.globals["inspect"] = Opaque("module:inspect")
    eng.isident_axioms = True
    st = State()
    scope = st.alloc(DictObj(STR, U, scope_m, scope_d, "scope"))
    n2a = st.alloc(DictObj(STR, STR, tag="name_to_annotation"))
    n2d = st.alloc(DictObj(STR, STR, tag="name_to_default"))
    st.env = {scope_var: scope, "param_names": Z("set:str", param_names), def_var: Z("str", def_name)}
    # the two name maps: find them as the dicts assigned with [p_name] inside the loop
    subs = [n for n in ast.walk(nloop) if isinstance(n, ast.Subscript) and isinstance(n.ctx, ast.Store) and isinstance(n.value, ast.Name) and n.value.id != scope_var]
    map_vars = []
    for n in subs:
        if n.value.id not in map_vars:
            map_vars.append(n.value.id)
    if len(map_vars) != 2:
        raise Unsupported("naming loop: expected two name maps")
    st.env[map_vars[0]], st.env[map_vars[1]] = n2a, n2d
    x = z3.Const("x", STR)
    inv_pc = [
        scope_d[def_name],
        z3.ForAll([x], z3.Implies(generated[x], scope_d[x])),
        z3.ForAll([x], z3.Implies(generated[x], z3.Not(param_names[x]))),
        z3.Not(generated[def_name]),
    ]
    st.pc = list(inv_pc)
    # arbitrary iteration with an arbitrary (p_name, p_annotation, p_default)
    from ..stmts import assign_target

    trip = Tup([Z("str", z3.String("p_name")), Opaque("p_annotation"), Opaque("p_default")])
    its = assign_target(eng, st, nloop.target, trip)
    for s0, o0 in its:
        if o0.kind != "normal":
            raise Unsupported("naming loop target")
        for s1, o in eng.run(nloop.body, s0):
            paths += 1
            if o.kind not in ("normal", "continue"):
                eng.oblige(s1, f"make_fn:naming-loop-iteration-completes[{o.kind}]", z3.BoolVal(False))
                continue
            new = s1.ghost.get("new_names", [])
            eng.oblige(s1, "make_fn:two-names-generated-per-parameter", z3.BoolVal(len(new) == 2))
            sc = s1.get(scope)
            for r in new:
                eng.oblige(s1, "make_fn:generated-name-differs-from-all-earlier-generated-names", z3.Not(generated[r]))
                eng.oblige(s1, "make_fn:generated-name-is-no-parameter-name-(incl.-the-output-name)", z3.Not(param_names[r]))
                eng.oblige(s1, "make_fn:generated-name-differs-from-the-def-name", r != def_name)
                eng.oblige(s1, "make_fn:generated-name-is-entered-into-the-exec-scope", sc.d[r])
            if len(new) == 2:
                eng.oblige(s1, "make_fn:annotation-name-and-default-name-differ", new[0] != new[1])
                A, D = s1.get(n2a), s1.get(n2d)
                pn = z3.String("p_name")
                eng.oblige(s1, "make_fn:parameter-is-paired-with-its-own-annotation-and-default-name", z3.And(A.d[pn], D.d[pn], z3.Or(z3.And(A.m[pn] == new[0], D.m[pn] == new[1]), z3.And(A.m[pn] == new[1], D.m[pn] == new[0]))))
                # the scope maps the names to this parameter's annotation (or Any) and default
                # invariant preserved for generated' = generated + new
                g2 = z3.Store(z3.Store(generated, new[0], True), new[1], True)
                y = z3.FreshConst(STR, "y")
                eng.oblige(s1, "make_fn:naming-invariant-preserved", z3.And(sc.d[def_name], z3.Implies(g2[y], sc.d[y]), z3.Implies(g2[y], z3.Not(param_names[y])), z3.Not(g2[def_name])))
    obligations.extend(st.obl)
    obligations.append({"clause": "canary:naming-invariant-satisfiable", "kind": "canary", "pc": list(inv_pc) + [generated[z3.StringVal("T0")]], "goal": z3.BoolVal(False), "path": [], "meta": {}})

    # ================================================================== classification loop: every parameter goes to the list of its kind
    KINDS = ["POSITIONAL_ONLY", "POSITIONAL_OR_KEYWORD", "VAR_POSITIONAL", "KEYWORD_ONLY", "VAR_KEYWORD"]
    cls_loops = [x for x in mk.body if isinstance(x, ast.For) and "parameters.values()" in ast.unparse(x.iter)]
    if len(cls_loops) != 1:
        raise Unsupported("_make_fn_with_signature: classification loop not found")
    cloop = cls_loops[0]
    list_inits = [sx.targets[0].id for sx in mk.body[: mk.body.index(cloop)] if isinstance(sx, ast.Assign) and isinstance(sx.value, ast.List) and not sx.value.elts and isinstance(sx.targets[0], ast.Name)]
    eng = Engine(mod)
    kind_consts = {k: Opaque(f"Parameter.{k}", z3.Const(f"ParamKind_{k}", U)) for k in KINDS}
    eng.globals["inspect"] = Opaque("module:inspect", attrs={"Parameter": Opaque("inspect.Parameter", attrs=kind_consts)})
    the_kind = z3.Const("p_kind", U)
    # enum members compare by identity
    eng.method_models["__eq__"] = lambda e, s, a, b: (a.t == b.t) if isinstance(a, Opaque) and isinstance(b, Opaque) and ("kind" in a.tag or "Parameter." in a.tag) else None
    st = State()
    refs = {nm: st.alloc(ListObj([], ("grp", z3.Bool(f"{nm}_nonempty"), z3.Const(f"{nm}_id", U)), nm)) for nm in list_inits}
    lst0 = {nm: st.get(r) for nm, r in refs.items()}
    pparam = Opaque("p", attrs={"kind": Opaque("p.kind", the_kind)})
    st.env = dict(refs)
    st.env[cloop.target.id] = pparam
    st.pc = [z3.Distinct(*[c.t for c in kind_consts.values()]), z3.Or(*[the_kind == c.t for c in kind_consts.values()])]
    want_list = dict(zip(KINDS, list_inits)) if len(list_inits) == 5 else None
    obligations.append({"clause": "make_fn:five-group-lists(pos-only, pos-or-kw, *args, kw-only, **kwargs)-are-initialised-empty", "pc": [], "goal": z3.BoolVal(want_list is not None), "path": [], "meta": {}})
    if want_list is not None:
        for s1, o in eng.run(cloop.body, st):
            paths += 1
            grown = [nm for nm, r in refs.items() if s1.get(r) is not lst0[nm]]
            ok_one = o.kind in ("normal", "continue") and len(grown) == 1 and s1.get(refs[grown[0]]).items == [pparam]
            eng.oblige(s1, "make_fn:each-parameter-is-appended-to-exactly-one-group", z3.BoolVal(ok_one))
            if ok_one:
                kname = [k for k, v in want_list.items() if v == grown[0]][0]
                eng.oblige(s1, "make_fn:the-group-is-the-one-of-the-parameter's-kind", the_kind == kind_consts[kname].t)
        obligations.extend(st.obl)

    # ================================================================== argument pieces are emitted in grammar order
    # region: from `argstr_pieces = []` to the statement that joins them
    try:
        i0 = next(i for i, sx in enumerate(mk.body) if isinstance(sx, ast.Assign) and getattr(sx.targets[0], "id", None) == "argstr_pieces")
        i1 = next(i for i, sx in enumerate(mk.body) if isinstance(sx, ast.Assign) and "join(argstr_pieces)" in ast.unparse(sx.value))
    except StopIteration:
        raise Unsupported("_make_fn_with_signature: argstr_pieces region not found")
    region = mk.body[i0 + 1 : i1]
    SEQU, SEQS2 = z3.SeqSort(U), z3.SeqSort(STR)
    Piece = z3.Function("argpiece", U, STR)
    MapPiece = z3.Function("map_argpiece", SEQU, SEQS2)
    eng = Engine(mod)
    eng.seq_elem["seq:u"] = "u"
    groups = {nm: z3.Const(f"group_{nm}", SEQU) for nm in list_inits} if want_list is not None else {}
    st = State()
    pieces_ref = st.alloc(Obj("seqlist", {"seq": Z("seq:str", z3.Empty(SEQS2))}, tag="argstr_pieces"))

    def m_append(e, s, recv, a, kw, nd):
        if isinstance(recv, Ref) and isinstance(s.get(recv), Obj) and s.get(recv).cls == "seqlist":
            x = a[0]
            if not (isinstance(x, Z) and x.kind == "str"):
                raise Unsupported("non-string argument piece")
            s1 = s.clone()
            cur = s1.get(recv).attrs["seq"].t
            s1.put(recv, Obj("seqlist", {"seq": Z("seq:str", z3.Concat(cur, z3.Unit(x.t)))}, tag="argstr_pieces"))
            return [(s1, NONE)]
        return None

    eng.method_models["append"] = m_append

    def m_listcomp(e, s, node):
        # [_make_argpiece(p, ...) for p in <group>] == map(argpiece, group)
        g = node.generators[0] if len(node.generators) == 1 else None
        ok = (g is not None and not g.ifs and isinstance(g.target, ast.Name) and isinstance(node.elt, ast.Call) and getattr(node.elt.func, "id", "") == "_make_argpiece"
              and node.elt.args and ast.unparse(node.elt.args[0]) == g.target.id and isinstance(g.iter, ast.Name))
        it = s.env.get(g.iter.id) if ok else None
        if not (ok and isinstance(it, Z) and it.kind == "seq:u"):
            raise Unsupported("a comprehension in the pieces region that is not [_make_argpiece(p, ...) for p in <group>]")
        return [(s, Z("seq:str", MapPiece(it.t)))]

    def m_iadd(e, s, lhs, rhs, node):
        # argstr_pieces += <list of pieces>
        if isinstance(lhs, Ref) and isinstance(s.get(lhs), Obj) and s.get(lhs).cls == "seqlist" and isinstance(rhs, Z) and rhs.kind == "seq:str":
            s1 = s.clone()
            cur = s1.get(lhs).attrs["seq"].t
            s1.put(lhs, Obj("seqlist", {"seq": Z("seq:str", z3.Concat(cur, rhs.t))}, tag="argstr_pieces"))
            return [(s1, NORMAL)]
        return None

    eng.method_models["__listcomp__"] = m_listcomp
    eng.method_models["__iadd__"] = m_iadd
    eng.globals["_make_argpiece"] = Fn("_make_argpiece", model=lambda e, s, a, kw, nd: [(s, Z("str", Piece(e.as_u(s, a[0]))))])

    def unpack_hook(e, s, elts, v):
        if isinstance(v, Z) and v.kind == "seq:u" and len(elts) == 1 and isinstance(elts[0], ast.Name):
            s1 = s.fork(z3.Length(v.t) == 1)
            s1.env[elts[0].id] = Opaque("only-element", v.t[0])
            return [(s1, NORMAL)]
        return None

    eng.method_models["__unpack__"] = unpack_hook

    def group_loop(e, node, s0):
        # `for p in <group>: argstr_pieces.append(_make_argpiece(p, ...))` summarised as pieces ++= map(argpiece, group)
        body_ok = (len(node.body) == 1 and isinstance(node.body[0], ast.Expr) and isinstance(node.body[0].value, ast.Call) and ast.unparse(node.body[0].value.func) == "argstr_pieces.append"
                   and isinstance(node.body[0].value.args[0], ast.Call) and getattr(node.body[0].value.args[0].func, "id", "") == "_make_argpiece" and ast.unparse(node.body[0].value.args[0].args[0]) == node.target.id)
        it = s0.env.get(getattr(node.iter, "id", ""))
        if not (body_ok and isinstance(it, Z) and it.kind == "seq:u"):
            raise Unsupported("argument-piece loop is not `for p in group: argstr_pieces.append(_make_argpiece(p, ...))`")
        s1 = s0.clone()
        cur = s1.get(pieces_ref).attrs["seq"].t
        s1.put(pieces_ref, Obj("seqlist", {"seq": Z("seq:str", z3.Concat(cur, MapPiece(it.t)))}, tag="argstr_pieces"))
        return [(s1, NORMAL)]

    for lp in [x for sx in region for x in ast.walk(sx) if isinstance(x, ast.For)]:
        eng.loop_specs[id(lp)] = group_loop
    if want_list is not None:
        st.env = {nm: Z("seq:u", g) for nm, g in groups.items()}
        st.env["argstr_pieces"] = pieces_ref
        st.env["name_to_annotation"], st.env["name_to_default"] = Opaque("name_to_annotation"), Opaque("name_to_default")
        g = {k: groups[v] for k, v in want_list.items()}
        L = z3.Length
        # signature invariants of inspect: at most one *args and one **kwargs parameter
        st.pc = [L(g["VAR_POSITIONAL"]) <= 1, L(g["VAR_KEYWORD"]) <= 1]
        E = z3.Empty(SEQS2)
        star = z3.If(L(g["VAR_POSITIONAL"]) == 1, z3.Unit(z3.Concat(z3.StringVal("*"), Piece(g["VAR_POSITIONAL"][0]))), z3.If(L(g["KEYWORD_ONLY"]) > 0, z3.Unit(z3.StringVal("*")), E))
        want = z3.Concat(MapPiece(g["POSITIONAL_ONLY"]), z3.If(L(g["POSITIONAL_ONLY"]) > 0, z3.Unit(z3.StringVal("/")), E), z3.If(L(g["POSITIONAL_OR_KEYWORD"]) > 0, MapPiece(g["POSITIONAL_OR_KEYWORD"]), E), star,
                         z3.If(L(g["KEYWORD_ONLY"]) > 0, MapPiece(g["KEYWORD_ONLY"]), E), z3.If(L(g["VAR_KEYWORD"]) == 1, z3.Unit(z3.Concat(z3.StringVal("**"), Piece(g["VAR_KEYWORD"][0]))), E))
        map_empty = [z3.Implies(L(x) == 0, MapPiece(x) == E) for x in g.values()]
        st.pc += map_empty
        for s1, o in eng.run(region, st):
            paths += 1
            if o.kind != "normal":
                eng.oblige(s1, f"make_fn:pieces-region-completes[{o.kind}]", z3.BoolVal(False))
                continue
            got = s1.get(pieces_ref).attrs["seq"].t
            eng.oblige(s1, "make_fn:pieces-are-emitted-in-grammar-order(pos-only.. '/' pos-or-kw.. ('*args' | '*') kw-only.. '**kwargs')", got == want)
        obligations.extend(st.obl)

    # ================================================================== _make_argpiece
    ap = mod.func("_make_argpiece")
    functions.append({"qualname": "jaxtyping._decorator._make_argpiece", "sha256_16": mod.sha(ap), "lines": [ap.lineno, ap.end_lineno]})
    EMPTY = Opaque("sentinel:inspect-empty-marker", z3.Const("inspect_empty", U))  # inspect.Signature.empty is inspect.Parameter.empty
    for has_default in (False, True):
        eng = Engine(mod)
        eng.globals["inspect"] = Opaque("module:inspect", attrs={"Signature": Opaque("inspect.Signature", attrs={"empty": EMPTY}), "Parameter": Opaque("inspect.Parameter", attrs={"empty": EMPTY}), "_empty": EMPTY})
        st = State()
        pname = z3.String("pname")
        A = st.alloc(DictObj(STR, STR, tag="name_to_annotation"))
        D = st.alloc(DictObj(STR, STR, tag="name_to_default"))
        user_default = Opaque("user-default-value", z3.Const("user_default", U))

        def eq_hook(e, s, x, y):
            # `==` / `!=` on the user's default object runs the user's __eq__: any answer (numpy arrays answer with an array, mocks with True)
            if x is user_default or y is user_default:
                return z3.FreshConst(BOOL, "user_eq_answer")
            return None

        eng.method_models["__eq__"] = eq_hook
        p = Opaque("p", attrs={"name": Z("str", pname), "default": user_default if has_default else EMPTY})
        pa = [a.arg for a in ap.args.args]
        st.env = {pa[0]: p, pa[1]: A, pa[2]: D}
        st.pc = [st.get(A).d[pname], st.get(D).d[pname], user_default.t != EMPTY.t]  # "has a default" means: p.default is not the marker object
        an, dn = st.get(A).m[pname], st.get(D).m[pname]
        for s1, o in eng.run(ap.body, st):
            paths += 1
            if o.kind == "return" and isinstance(o.val, Z) and o.val.kind == "str":
                with_default = z3.Concat(pname, z3.StringVal(": "), an, z3.StringVal(" = "), dn)
                without = z3.Concat(pname, z3.StringVal(": "), an)
                eng.oblige(s1, "argpiece:is-name-colon-its-annotation-name-optionally-equals-its-default-name", z3.Or(o.val.t == with_default, o.val.t == without))
                eng.oblige(s1, "argpiece:the-default-is-kept-exactly-when-the-parameter-has-one(identity-test-against-inspect's-empty-marker,-the-default's-own-__eq__-is-never-consulted)",
                           o.val.t == (with_default if has_default else without))
            else:
                eng.oblige(s1, f"argpiece:returns-a-string[{o.kind}]", z3.BoolVal(False))
        obligations.extend(st.obl)

    out = []
    for ob in obligations:
        ob = dict(ob)
        ob.setdefault("kind", "vc")
        out.append(ob)
    return {"unit": NAME, "functions": functions, "obligations": out, "paths": paths, "stats": {},
            "assumptions": [
                "str(int) / str.isidentifier are uninterpreted; assumed: prefix.isidentifier() and k >= 0 imply (prefix + str(k)).isidentifier()",
                "termination of _gensym is not proved (needs finiteness of `names`); the index strictly increases",
                "exec(def-source, scope) defines a function with exactly the signature written in the source (T3; bounded stand-in b07)",
                "the per-group append loops are summarised by their pattern (pieces ++= map(argpiece, group)); the pattern itself is checked on the AST",
            ]}
