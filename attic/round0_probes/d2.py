import warnings, itertools, random, sys
warnings.simplefilter("ignore")
from jaxtyping import PyTree, jaxtyped
# --- own tree algebra (independent of jax.tree_util): leaf = int; nodes: tuple, list, dict(str keys), None
def struct(x):
    if x is None: return ("none",)
    if isinstance(x, tuple): return ("tuple",) + tuple(struct(c) for c in x)
    if isinstance(x, list): return ("list",) + tuple(struct(c) for c in x)
    if isinstance(x, dict): return ("dict", tuple(sorted(x))) + tuple(struct(x[k]) for k in sorted(x))
    return ("*",)
def children(s): return s[2:] if s[0] == "dict" else s[1:]
def head(s): return s[:2] if s[0] == "dict" else s[:1]
def subst(s, t):  # replace every leaf of s by t
    if s == ("*",): return t
    return head(s) + tuple(subst(c, t) for c in children(s))
def is_prefix(p, s):
    if p == ("*",): return True
    if head(p) != head(s) or len(children(p)) != len(children(s)): return False
    return all(is_prefix(a, b) for a, b in zip(children(p), children(s)))
def is_suffix(s, t):  # every root-to-leaf path of s passes through a subtree equal to t (top-down first hit)
    if s == t: return True
    if s == ("*",): return False
    return all(is_suffix(c, t) for c in children(s))
def has_empty(s):
    if s == ("*",): return False
    if s[0] == "none" or not children(s): return True
    return any(has_empty(c) for c in children(s))
def gen(depth):
    if depth == 0: return [0]
    sub = gen(depth - 1)
    out = [0, None, (), []]
    for a in sub: out += [(a,), [a], {"k": a}]
    small = sub[:6]
    for a in small:
        for b in small: out += [(a, b), {"k": a, "j": b}]
    return out
def dedupe(xs):
    seen = {}; 
    for x in xs: seen.setdefault((struct(x), type(x).__name__), x)
    return list(seen.values())
T1 = dedupe(gen(1)); T2 = dedupe(gen(2))
random.seed(int(sys.argv[1]) if len(sys.argv) > 1 else 0)
I = PyTree[int, "T"]; J = PyTree[int, "S"]
forms = {"T": PyTree[int, "T"], "S T": PyTree[int, "S T"], "T ...": PyTree[int, "T ..."], "... T": PyTree[int, "... T"]}
n = 0; dis = {}; dc = 0
cands = [(t, s, x) for t in T1 for s in T1 for x in T2]
random.shuffle(cands)
for t, s, x in cands[:40000]:
    if t is None or s is None or x is None: continue      # top-level None is always accepted and binds nothing
    st, ss, sx = struct(t), struct(s), struct(x)
    want = {"T": sx == st, "S T": sx == subst(ss, st), "T ...": is_prefix(st, sx), "... T": is_suffix(sx, st)}
    for form, ann in forms.items():
        with jaxtyped("context"):
            assert isinstance(t, I) and isinstance(s, J)
            try: got = isinstance(x, ann)
            except Exception as e: got = type(e).__name__
        n += 1
        if got != want[form]:
            if form == "... T" and (has_empty(sx) or has_empty(st)): dc += 1; continue   # documented don't-care
            dis.setdefault(form, []).append((t, s, x, got, want[form]))
print("checks", n, "disagreements", {k: len(v) for k, v in dis.items()}, "suffix don't-cares (empty containers/None)", dc)
for k, v in dis.items():
    for e in v[:5]: print(" ", k, e)
