"""Symbolic values, heap objects, exception hierarchy, execution state."""
from __future__ import annotations

import itertools

import z3

# ------------------------------------------------------------------ sorts
U = z3.DeclareSort("U")  # opaque Python objects (identity / equality only)
INT, BOOL, STR = z3.IntSort(), z3.BoolSort(), z3.StringSort()
SEQ_INT = z3.SeqSort(INT)
SEQ_STR = z3.SeqSort(STR)

_ids = itertools.count(1)


def fresh_id():
    return next(_ids)


class Val:
    pass


class Z(Val):
    """z3-backed value. kind in int|bool|str|seq:int|seq:str|seq:dim|dim|u (opaque sort U)|<datatype name>."""

    __slots__ = ("kind", "t", "tag")

    def __init__(self, kind, t, tag=None):
        self.kind, self.t, self.tag = kind, t, tag

    def __repr__(self):
        return f"Z[{self.kind}]({self.t})"


class NoneV(Val):
    def __repr__(self):
        return "None"


NONE = NoneV()


class Tup(Val):
    """tuple / immutable list display with static length."""

    __slots__ = ("items", "is_list")

    def __init__(self, items, is_list=False):
        self.items, self.is_list = list(items), is_list

    def __repr__(self):
        return f"Tup{self.items}"


class Ref(Val):
    """reference to a mutable heap object."""

    __slots__ = ("h",)

    def __init__(self, h):
        self.h = h

    def __repr__(self):
        return f"Ref#{self.h}"


class Opaque(Val):
    """A Python object we know nothing about except an identity term of sort U."""

    __slots__ = ("tag", "t", "attrs")

    def __init__(self, tag, t=None, attrs=None):
        self.tag = tag
        self.t = t if t is not None else z3.FreshConst(U, _safe(tag))
        self.attrs = attrs  # optional dict of known attributes

    def __repr__(self):
        return f"Opaque<{self.tag}>"


def _safe(tag):
    return "".join(c if c.isalnum() else "_" for c in str(tag))[:30] or "o"


class Cls(Val):
    """A class object: exception classes, dataclasses, builtin types."""

    __slots__ = ("name",)

    def __init__(self, name):
        self.name = name

    def __repr__(self):
        return f"Cls<{self.name}>"


class Fn(Val):
    """A callable known to the engine: either a model (python callable) or a repo closure."""

    __slots__ = ("name", "model", "node", "closure")

    def __init__(self, name, model=None, node=None, closure=None):
        self.name, self.model, self.node, self.closure = name, model, node, closure

    def __repr__(self):
        return f"Fn<{self.name}>"


class Exc(Val):
    """An exception instance."""

    __slots__ = ("cls", "args", "cause", "suppress", "id", "origin", "notes")

    def __init__(self, cls, args=(), cause=None, suppress=False, origin=None):
        # cls: a class name, or a frozenset of class names ("one of these", narrowed lazily by except clauses)
        self.cls, self.args, self.cause, self.suppress = cls, list(args), cause, suppress
        self.id = fresh_id()
        self.origin = origin  # where it was raised: callee name or 'explicit'
        self.notes = []

    def classes(self):
        return self.cls if isinstance(self.cls, frozenset) else frozenset([self.cls])

    def narrow(self, classes):
        """the same exception object (same id), known to be of one of `classes`."""
        classes = frozenset(classes)
        e = Exc(next(iter(classes)) if len(classes) == 1 else classes, self.args, self.cause, self.suppress, self.origin)
        e.id = self.id
        e.notes = self.notes
        return e

    def same(self, other):
        return isinstance(other, Exc) and other.id == self.id

    def __repr__(self):
        return f"Exc<{self.cls}#{self.id} from {self.origin}>"


# ------------------------------------------------------------------ heap objects
class DictObj:
    """dict with z3 contents: m: key->value array, d: key->bool domain."""

    def __init__(self, ksort, vsort, m=None, d=None, tag="dict"):
        self.ksort, self.vsort, self.tag = ksort, vsort, tag
        self.m = m if m is not None else z3.FreshConst(z3.ArraySort(ksort, vsort), tag + "_m")
        self.d = d if d is not None else z3.FreshConst(z3.ArraySort(ksort, BOOL), tag + "_d")

    def with_(self, m, d):
        return DictObj(self.ksort, self.vsort, m, d, self.tag)

    @staticmethod
    def empty(ksort, vsort, tag="dict"):
        return DictObj(ksort, vsort, z3.K(ksort, _default(vsort)), z3.K(ksort, z3.BoolVal(False)), tag)

    def same(self, other):
        """contents equal (as finite maps): domains equal and values agree on the domain."""
        k = z3.FreshConst(self.ksort, "k")
        return z3.And(self.d == other.d, self.m == other.m)


def _default(sort):
    if sort == INT:
        return z3.IntVal(0)
    if sort == BOOL:
        return z3.BoolVal(False)
    if sort == STR:
        return z3.StringVal("")
    return z3.Const("default_" + str(sort), sort)


class ListObj:
    """mutable list: explicit items on top of an optional symbolic lower part.
    lower = None (nothing below) or (tag, nonempty: z3 Bool, ident: z3 const) -- an unknown
    list prefix, lazily materialised one element at a time by the owner's model."""

    def __init__(self, items=(), lower=None, tag="list"):
        self.items, self.lower, self.tag = list(items), lower, tag

    def with_(self, items=None, lower="same"):
        return ListObj(self.items if items is None else items, self.lower if lower == "same" else lower, self.tag)


class Obj:
    """generic object with named attributes (thread-locals, self, AST nodes...).
    attrs: name -> Val ; missing: set of names known to be absent; `open` = other attrs unknown."""

    def __init__(self, cls="object", attrs=None, absent=(), open_=False, tag=None):
        self.cls, self.attrs, self.absent, self.open, self.tag = cls, dict(attrs or {}), set(absent), open_, tag or cls

    def with_(self, attrs=None, absent=None):
        o = Obj(self.cls, self.attrs if attrs is None else attrs, self.absent if absent is None else absent, self.open, self.tag)
        return o


# ------------------------------------------------------------------ exception hierarchy
EXC_PARENT = {
    "BaseException": None,
    "Exception": "BaseException",
    "KeyboardInterrupt": "BaseException",
    "SystemExit": "BaseException",
    "GeneratorExit": "BaseException",
    "NonExceptionBase": "BaseException",  # representative: any BaseException that is not an Exception
    "OtherException": "Exception",  # representative: any Exception subclass not named below
    "TypeError": "Exception",
    "TypeCheckError": "TypeError",
    "OtherTypeError": "TypeError",  # representative: a TypeError that is not TypeCheckError
    "ValueError": "Exception",
    "LookupError": "Exception",
    "KeyError": "LookupError",
    "IndexError": "LookupError",
    "AttributeError": "Exception",
    "NameError": "Exception",
    "AnnotationError": "Exception",
    "RuntimeError": "Exception",
    "AssertionError": "Exception",
    "ImportError": "Exception",
    "SyntaxError": "Exception",
    "OSError": "Exception",
    "StopIteration": "Exception",
    "PackageNotFoundError": "ImportError",
}


def exc_ancestors(c):
    out = []
    while c is not None:
        out.append(c)
        if c not in EXC_PARENT:
            # unknown class: treat as direct Exception subclass
            out.extend(["Exception", "BaseException"])
            break
        c = EXC_PARENT[c]
    return out


def exc_isinstance(c, handler):
    if isinstance(c, frozenset):
        return all(handler in exc_ancestors(x) for x in c)
    return handler in exc_ancestors(c)


# "any exception" an opaque callee may raise: representatives partitioning the hierarchy
ANY_EXC = ["AnnotationError", "TypeCheckError", "OtherTypeError", "ValueError", "KeyError", "AttributeError", "NameError", "OtherException", "NonExceptionBase"]
ANY_EXC_SMALL = ["AnnotationError", "OtherTypeError", "OtherException", "NonExceptionBase"]


# ------------------------------------------------------------------ outcomes
class Outcome:
    __slots__ = ("kind", "val")

    def __init__(self, kind, val=None):
        self.kind, self.val = kind, val  # normal | return | break | continue | raise

    def __repr__(self):
        return f"<{self.kind} {self.val}>"


NORMAL = Outcome("normal")


class Unsupported(Exception):
    """statement/expression outside the modelled subset -> the unit is undecided (exit 2)."""


# ------------------------------------------------------------------ state
class State:
    __slots__ = ("env", "pc", "heap", "ghost", "log", "obl", "exc_stack", "path", "notes")

    def __init__(self):
        self.env = {}
        self.pc = []
        self.heap = {}
        self.ghost = {}
        self.log = []  # ghost call log: (callee, info)
        self.obl = []  # SHARED list of obligations raised along the way
        self.exc_stack = []  # exceptions being handled (for bare raise)
        self.path = []  # branch labels
        self.notes = []

    def clone(self):
        s = State()
        s.env = dict(self.env)
        s.pc = list(self.pc)
        s.heap = dict(self.heap)
        s.ghost = dict(self.ghost)
        s.log = list(self.log)
        s.obl = self.obl
        s.exc_stack = list(self.exc_stack)
        s.path = list(self.path)
        s.notes = self.notes
        return s

    def fork(self, cond, label=None):
        s = self.clone()
        if cond is not None and not z3.is_true(cond):
            s.pc.append(cond)
        if label:
            s.path.append(label)
        return s

    def alloc(self, obj):
        h = fresh_id()
        self.heap[h] = obj
        return Ref(h)

    def get(self, ref):
        return self.heap[ref.h]

    def put(self, ref, obj):
        self.heap[ref.h] = obj


def exc_representatives(*fn_nodes):
    """classes an opaque callee may raise, partitioning the hierarchy w.r.t. the `except` clauses that occur in the
    given functions: every class named in a handler, plus 'any other Exception' and 'any non-Exception BaseException'."""
    import ast as _ast

    named = []
    for fn in fn_nodes:
        for n in _ast.walk(fn):
            if isinstance(n, _ast.ExceptHandler) and n.type is not None:
                for x in n.type.elts if isinstance(n.type, _ast.Tuple) else [n.type]:
                    nm = x.id if isinstance(x, _ast.Name) else getattr(x, "attr", None)
                    if nm and nm not in ("Exception", "BaseException") and nm not in named:
                        named.append(nm)
    reps = list(named)
    if "TypeError" in reps:
        reps[reps.index("TypeError")] = "OtherTypeError"
    return reps + ["OtherException", "NonExceptionBase"]
