"""Bounded stand-in for C05: bindings live exactly as long as one jaxtyped call or context block.

Small programs (trees of operations) are executed twice by ONE walker with two back ends:

* the MODEL back end is the oracle, written from the property statement and the `jaxtyped` docs only: a stack of
  frames; a decorated call / `with jaxtyped("context")` pushes an empty frame (plus the bindings made by checking the
  annotated arguments, plus the call's arguments), any exit pops it; an isinstance check against `Shaped[ndarray, dims]`
  binds unbound names in the top frame and compares bound ones, all-or-nothing; with an empty stack every check is
  stateless; calling a decorated generator/coroutine function pushes and pops before the body runs, so the body later
  runs in the consumer's frame;
* the REAL back end calls the real decorated functions and reads `jaxtyping._storage` (get_shape_memo(), depth of
  `_shape_storage.memo_stack`) and `print_bindings()`.

Both produce an event trace (entry snapshot of every body, verdict of every check, outcome of every call, snapshot after
every operation); any difference is a failure.  Exceptions raised by the code under test are outcomes, not crashes.
"""
import contextlib
import dataclasses
import io
import json
import os
import random
import sys
import warnings

sys.dont_write_bytecode = True  # never write __pycache__ into /verif or the repo

try:
    import _common
except ImportError:  # imported as bounded.b05_contexts (replay)
    from bounded import _common

import numpy as np

# ----------------------------------------------------------------------------------------------------------------------
# the program space
# ----------------------------------------------------------------------------------------------------------------------
CHECKED = ("tg", "bt", "old_tg", "old_bt", "dc_tg", "dc_bt", "meth_tg", "meth_bt", "cm_tg", "cm_bt", "sm_tg", "sm_bt")
FN_KINDS = CHECKED + ("none",)
GEN_KINDS = ("gen_tg", "gen_bt", "gen_none", "coro_tg", "coro_bt", "coro_none")
RAISES = ("raise:ValueError", "raise:KeyError", "raise:KeyboardInterrupt", "raise:SystemExit", "raise:GeneratorExit",
          "raise:CustomBase")
DIMSTRS = ("n", "m", "n m", "m n", "*b", "*b n")
TREES = {"list2": [1, 2], "tuple2": (1, 2), "dict1": {"a": 1}, "leaf": 3}
SELF_KINDS = {"dc": "self", "meth": "self", "cm": "cls"}


class CustomBase(BaseException):
    pass


EXC_CLASSES = {"ValueError": ValueError, "KeyError": KeyError, "KeyboardInterrupt": KeyboardInterrupt,
               "SystemExit": SystemExit, "GeneratorExit": GeneratorExit, "CustomBase": CustomBase}


def exits_for(kind):
    """exits that make sense for a callee kind"""
    if kind == "ctx" or kind in GEN_KINDS or kind.startswith("dc_"):
        return ("return",) + RAISES
    return ("return", "badret") + RAISES


class Prog:
    """what a decorated body is told to do (passed through the decorated function as an ordinary argument)"""
    __slots__ = ("path", "kind", "body", "exit", "x", "k", "bad", "exc")

    def __repr__(self):
        return "Prog%s" % (self.path,)


class _ModelTypeCheck(Exception):
    """raised by the model where the statement/docs say the type checker rejects"""


class _ModelTypeError(Exception):
    """raised by the model where an argument list does not bind"""


# ----------------------------------------------------------------------------------------------------------------------
# MODEL back end (oracle)
# ----------------------------------------------------------------------------------------------------------------------
def model_match(frame, dimstr, shape):
    """verdict of isinstance(array of `shape`, Shaped[ndarray, dimstr]) in `frame` (None = no context open);
    binds on success only.  Written from docs/api/array.md: a name is a variable-size axis matched for consistency,
    '*name' matches zero or more axes."""
    toks = dimstr.split()
    var = [i for i, t in enumerate(toks) if t.startswith("*")]
    assert len(var) <= 1
    single = {} if frame is None else frame["single"]
    variadic = {} if frame is None else frame["var"]
    new_single, new_var = {}, {}
    if not var:
        if len(shape) != len(toks):
            return False
        pairs = list(zip(toks, shape))
    else:
        i = var[0]
        n_after = len(toks) - i - 1
        if len(shape) < len(toks) - 1:
            return False
        vshape = tuple(shape[i:len(shape) - n_after])
        pairs = list(zip(toks[:i], shape[:i])) + list(zip(toks[i + 1:], shape[len(shape) - n_after:] if n_after else ()))
        name = toks[i][1:]
        if name in variadic:
            if variadic[name] != vshape:
                return False
        else:
            new_var[name] = vshape
    for name, size in pairs:
        cur = single.get(name, new_single.get(name))
        if cur is None:
            new_single[name] = size
        elif cur != size:
            return False
    if frame is not None:
        single.update(new_single)
        variadic.update(new_var)
    return True


class Model:
    def __init__(self):
        self.stack = []

    def top(self):
        return self.stack[-1] if self.stack else None

    def snap(self):
        f = self.top()
        if f is None:
            return (0, [], [], [], [], [])
        return (len(self.stack), sorted(f["single"].items()), sorted(f["var"].items()), sorted(f["tree"]),
                sorted((k, id(v)) for k, v in f["args"].items() if k in ("x", "k", "prog")), sorted(f["args"]))

    def raw(self):
        return None

    def chk(self, dimstr, shape):
        return model_match(self.top(), dimstr, shape)

    def tree(self, name, sid):
        f = self.top()
        if f is None:
            return True
        if name in f["tree"]:
            return f["tree"][name] == sid
        f["tree"][name] = sid
        return True

    def argchk(self, size):
        f = self.top()
        if f is None or f["kind"] != "fn":
            return None  # statement silent: '{k}' where the innermost context has no argument k -> excluded
        return size == f["args"]["k"]

    def pb(self):
        f = self.top()
        if f is None:
            return {}
        out = {k: str(v) for k, v in f["single"].items()}
        out.update({k: str(v) for k, v in f["var"].items()})
        out.update({k: "<tree>" for k in f["tree"]})
        return out

    def _frame(self, kind, args):
        return {"kind": kind, "single": {}, "var": {}, "tree": {}, "args": args}

    def _args(self, kind, prog):
        args = {"x": prog.x, "k": prog.k, "prog": prog}
        selfname = SELF_KINDS.get(kind.split("_")[0])
        if selfname:
            args[selfname] = object()
        return args

    def invoke(self, walker, kind, prog, mode):
        if mode == "nobind":
            raise _ModelTypeError()
        checked = kind in CHECKED or (kind in GEN_KINDS and not kind.endswith("none"))
        if checked and prog.x.ndim != 1:
            raise _ModelTypeCheck()  # ill-typed argument: rejected, body not run
        frame = self._frame("fn", self._args(kind, prog))
        if checked:
            frame["single"]["n"] = prog.x.shape[0]
        depth = len(self.stack)
        self.stack.append(frame)
        try:
            if kind in GEN_KINDS:
                out = None  # body does not run during the call
            else:
                out = walker.body(prog)
                if checked and not kind.startswith("dc_") and out is not prog.x:
                    raise _ModelTypeCheck()  # ill-typed result
        finally:
            del self.stack[depth:]
        if kind in GEN_KINDS:
            return _ModelDeferred(walker, prog)
        if kind.startswith("dc_"):
            return "INSTANCE"
        return out

    def ctx(self, walker, prog):
        depth = len(self.stack)
        self.stack.append(self._frame("ctx", {}))
        try:
            walker.body(prog)
        finally:
            del self.stack[depth:]


class _ModelDeferred:
    def __init__(self, walker, prog):
        self.walker, self.prog = walker, prog

    def consume(self):
        return self.walker.body(self.prog)


# ----------------------------------------------------------------------------------------------------------------------
# REAL back end
# ----------------------------------------------------------------------------------------------------------------------
class Real:
    def __init__(self, env):
        self.env = env
        self.jt = env["jt"]
        self.st = env["storage"]

    def depth(self):
        holder = getattr(self.st, "_shape_storage", None)
        stack = getattr(holder, "memo_stack", None) if holder is not None else None
        return len(stack) if stack is not None else 0

    def snap(self):
        s, v, t, a = self.st.get_shape_memo()
        return (self.depth(), sorted(s.items()), sorted((k, tuple(val[-1])) for k, val in v.items()), sorted(t),
                sorted((k, id(val)) for k, val in a.items() if k in ("x", "k", "prog")), sorted(a))

    def raw(self):
        s, v, t, a = self.st.get_shape_memo()
        return (self.depth(), repr(sorted(s.items())), repr(sorted(v.items())), repr(sorted((k, str(x)) for k, x in t.items())),
                sorted((k, id(val)) for k, val in a.items()))

    def chk(self, dimstr, shape):
        return isinstance(np.zeros(shape), self.jt.Shaped[np.ndarray, dimstr])

    def tree(self, name, sid):
        return isinstance(TREES[sid], self.jt.PyTree[int, name])

    def argchk(self, size):
        return isinstance(np.zeros(size), self.jt.Shaped[np.ndarray, "{k}"])

    def pb(self):
        buf = io.StringIO()
        with contextlib.redirect_stdout(buf):
            self.jt.print_bindings()
        out = {}
        tree_part = False
        for line in buf.getvalue().splitlines():
            if "PyTree" in line and "=" not in line.split("PyTree")[0]:
                tree_part = True
            if "=" in line and " " not in line.split("=", 1)[0]:
                name, val = line.split("=", 1)
                out[name] = "<tree>" if tree_part else val
        return out

    def invoke(self, walker, kind, prog, mode):
        fn = self.env["fns"][kind]
        if mode == "nobind":
            out = fn()
        else:
            out = fn(prog.x, prog.k, prog)
        if kind in GEN_KINDS:
            return _RealDeferred(kind, out)
        return out

    def ctx(self, walker, prog):
        # every second block re-uses ONE context object (also re-entrantly, when blocks nest): the object is stateless by contract
        self._n_ctx = getattr(self, "_n_ctx", 0) + 1
        if self._n_ctx % 2:
            if getattr(self, "_shared_ctx", None) is None:
                self._shared_ctx = self.jt.jaxtyped("context")
            cm = self._shared_ctx
        else:
            cm = self.jt.jaxtyped("context")
        with cm:
            walker.body(prog)


class _RealDeferred:
    def __init__(self, kind, obj):
        self.kind, self.obj = kind, obj

    def consume(self):
        if self.kind.startswith("gen"):
            return next(self.obj)
        try:
            self.obj.send(None)
        except StopIteration as e:
            return e.value
        raise RuntimeError("coroutine did not finish")


_ACTIVE = []  # the walker whose program is running (the decorated bodies call back into it)


def _body(prog):
    return _ACTIVE[-1].body(prog)


def build_env(jt):
    """decorate once; every decorated function just hands control back to the walker"""
    import beartype
    import typeguard
    import jaxtyping._storage as storage

    A = jt.Shaped[np.ndarray, "n"]
    fns = {}
    for tag, tc in (("tg", typeguard.typechecked), ("bt", beartype.beartype), ("none", None)):
        @jt.jaxtyped(typechecker=tc)
        def gen(x: A, k: int, prog):
            r = _body(prog)
            yield r

        @jt.jaxtyped(typechecker=tc)
        async def coro(x: A, k: int, prog):
            return _body(prog)

        fns["gen_" + tag] = gen
        fns["coro_" + tag] = coro
        if tc is None:
            @jt.jaxtyped(typechecker=None)
            def fnone(x, k, prog):
                return _body(prog)

            fns["none"] = fnone
            continue

        @jt.jaxtyped(typechecker=tc)
        def f(x: A, k: int, prog) -> A:
            return _body(prog)

        with warnings.catch_warnings():
            warnings.simplefilter("ignore")

            @jt.jaxtyped
            @tc
            def fo(x: A, k: int, prog) -> A:
                return _body(prog)

        @jt.jaxtyped(typechecker=tc)
        @dataclasses.dataclass
        class DC:
            x: A
            k: int
            prog: object

            def __post_init__(self):
                _body(self.prog)

        class M:
            @jt.jaxtyped(typechecker=tc)
            def meth(self, x: A, k: int, prog) -> A:
                return _body(prog)

            @jt.jaxtyped(typechecker=tc)
            @classmethod
            def cm(cls, x: A, k: int, prog) -> A:
                return _body(prog)

            @jt.jaxtyped(typechecker=tc)
            @staticmethod
            def sm(x: A, k: int, prog) -> A:
                return _body(prog)

        fns[tag] = f
        fns["old_" + tag] = fo
        fns["dc_" + tag] = DC
        fns["meth_" + tag] = M().meth
        fns["cm_" + tag] = M.cm
        fns["sm_" + tag] = M.sm
    return {"jt": jt, "storage": storage, "fns": fns}


# ----------------------------------------------------------------------------------------------------------------------
# the walker (shared by both back ends, so the two traces are comparable event by event)
# ----------------------------------------------------------------------------------------------------------------------
class Walker:
    def __init__(self, backend, objs, skips, is_model):
        self.be = backend
        self.objs = objs  # path -> Prog (shared by both passes so that identities can be compared)
        self.skips = skips  # paths of '{k}' checks excluded by the model
        self.is_model = is_model
        self.events = []
        self.pending = []
        self.user_excs = {}
        self.labels = {}

    def ev(self, kind, path, payload):
        self.events.append((kind, ".".join(map(str, path)), payload))

    def prog_for(self, path, kind, size, k, body, exit_):
        p = self.objs.get(path)
        if p is None:
            p = Prog()
            p.path, p.kind, p.body, p.exit = path, kind, body, exit_
            p.x = np.zeros(size)
            p.k = k
            p.bad = np.zeros((size if isinstance(size, int) else 1) + 1)
            p.exc = EXC_CLASSES[exit_[6:]]("planted") if exit_.startswith("raise:") else None
            self.objs[path] = p
        if p.exc is not None:
            self.user_excs[id(p.exc)] = p
        return p

    # -- called from inside decorated bodies / context blocks -------------------------------------------------------
    def body(self, prog):
        self.ev("entry", prog.path, self.be.snap())
        self.run_ops(prog.body, prog.path)
        if prog.exit == "return":
            return prog.x
        if prog.exit == "badret":
            return prog.bad
        raise prog.exc

    def run_ops(self, ops, path):
        for i, op in enumerate(ops):
            self.run_op(op, path + (i,))

    def classify(self, kind, exc):
        # an exception keeps the label it got at the call it came out of first
        hit = self.labels.get(id(exc))
        if hit is not None and hit[0] is exc:
            return hit[1]
        label = self._classify(kind, exc)
        self.labels[id(exc)] = (exc, label)
        return label

    def _classify(self, kind, exc):
        p = self.user_excs.get(id(exc))
        if p is not None:
            return "exc:%s:same-object@%s" % (type(exc).__name__, ".".join(map(str, p.path)))
        if isinstance(exc, _ModelTypeCheck):
            return "exc:REJECTED"
        if isinstance(exc, _ModelTypeError):
            return "exc:REJECTED" if kind.startswith("old_") else "exc:TypeError"
        if self.is_model:
            raise exc  # harness bug
        if kind.startswith("old_") and isinstance(exc, Exception):
            return "exc:REJECTED"  # the user's own checker decides the class
        if isinstance(exc, self.be.jt.TypeCheckError):
            return "exc:REJECTED"
        if type(exc) is TypeError:
            return "exc:TypeError"
        return "exc:%s:unexpected:%s" % (type(exc).__name__, str(exc)[:80])

    def guarded(self, kind, path, thunk, catch, ret_class, raw_check=True):
        raw0 = self.be.raw() if raw_check else None
        exc = None
        try:
            out = thunk()
            oc = ret_class(out)
        except BaseException as e:  # noqa: BLE001 - exceptions of the code under test are results
            exc = e
            oc = self.classify(kind, e)
        self.ev("outcome", path, oc)
        self.ev("post", path, self.be.snap())
        if raw0 is not None and self.be.raw() != raw0:
            self.ev("raw-contents-changed", path, [raw0, self.be.raw()])
        if exc is not None and not catch:
            raise exc
        return None if exc is not None else out

    def run_op(self, op, path):
        tag = op[0]
        if tag == "chk":
            self.ev("chk", path, self.be.chk(op[1], tuple(op[2])))
            self.ev("post", path, self.be.snap())
        elif tag == "tree":
            self.ev("tree", path, self.be.tree(op[1], op[2]))
            self.ev("post", path, self.be.snap())
        elif tag == "argchk":
            if self.is_model:
                v = self.be.argchk(op[1])
                if v is None:
                    self.skips.add(path)
                    return
            else:
                if path in self.skips:
                    return
                try:
                    v = self.be.argchk(op[1])
                except Exception as e:  # noqa: BLE001
                    v = "exc:%s" % type(e).__name__
            self.ev("argchk", path, v)
            self.ev("post", path, self.be.snap())
        elif tag == "pb":
            self.ev("pb", path, sorted(self.be.pb().items()))
        elif tag in ("call", "badcall"):
            if tag == "call":
                _, kind, size, k, body, exit_, catch = op
                mode = "ok"
            else:
                _, kind, mode = op
                size, k, body, exit_, catch = ((2, 2) if mode == "illtyped" else 2), 1, [], "return", True
            prog = self.prog_for(path, kind, size, k, body, exit_)

            def ret_class(out):
                if kind.startswith("dc_"):
                    return "ret:instance" if (out == "INSTANCE" or type(out).__name__ == "DC") else "ret:other"
                return "ret:same-object" if out is prog.x else ("ret:bad-object" if out is prog.bad else "ret:other")

            self.guarded(kind, path, lambda: self.be.invoke(self, kind, prog, mode), catch, ret_class)
        elif tag == "ctx":
            _, body, exit_, catch = op
            prog = self.prog_for(path, "ctx", 1, 0, body, exit_)
            # a context block that ends normally: body() returns prog.x, nothing is raised
            self.guarded("ctx", path, lambda: self.be.ctx(self, prog), catch, lambda out: "ret:fallthrough")
        elif tag == "gen":
            _, kind, size, k, body, exit_, defer, catch = op
            prog = self.prog_for(path, kind, size, k, body, exit_)
            d = self.guarded(kind, path + ("create",), lambda: self.be.invoke(self, kind, prog, "ok"), True,
                             lambda out: "ret:deferred")
            if d is not None:
                if defer:
                    self.pending.append((d, prog, kind))
                else:
                    self.consume(d, prog, kind, path + ("consume",), catch)
        elif tag == "consume":
            if self.pending:
                d, prog, kind = self.pending.pop(0)
                self.consume(d, prog, kind, path, op[1])
        else:
            raise AssertionError(op)

    def consume(self, d, prog, kind, path, catch):
        self.guarded(kind, path, d.consume, catch,
                     lambda out: "ret:same-object" if out is prog.x else "ret:other", raw_check=False)

    def top_level(self, program):
        for i, op in enumerate(program):
            try:
                self.run_op(op, (i,))
            except BaseException as e:  # noqa: BLE001
                self.ev("uncaught-at-top", (i,), self.classify("top", e))
        j = 0
        while self.pending:
            d, prog, kind = self.pending.pop(0)
            try:
                self.consume(d, prog, kind, ("end", j), True)
            except BaseException as e:  # noqa: BLE001
                self.ev("uncaught-at-top", ("end", j), self.classify("top", e))
            j += 1
        self.ev("final", ("end",), self.be.snap())


def run_program(env, program):
    """returns (model_events, real_events)"""
    objs, skips = {}, set()
    m = Walker(Model(), objs, skips, True)
    _ACTIVE.append(m)
    try:
        m.top_level(program)
    finally:
        _ACTIVE.pop()
    real = Real(env)
    r = Walker(real, objs, skips, False)
    _ACTIVE.append(r)
    try:
        r.top_level(program)
    finally:
        _ACTIVE.pop()
        # never let one program's leak contaminate the next one
        holder = getattr(env["storage"], "_shape_storage", None)
        stack = getattr(holder, "memo_stack", None)
        if stack:
            del stack[:]
    return m.events, r.events


# ----------------------------------------------------------------------------------------------------------------------
# comparison, case ids, shrinking
# ----------------------------------------------------------------------------------------------------------------------
def op_at(program, path_str):
    """the op addressed by an event path (ignores the 'create'/'consume'/'end' suffixes)"""
    ops, op = program, None
    for part in path_str.split("."):
        if not part.isdigit():
            break
        idx = int(part)
        if ops is None or idx >= len(ops):
            break
        op = ops[idx]
        ops = {"call": lambda o: o[4], "ctx": lambda o: o[1], "gen": lambda o: o[4]}.get(op[0], lambda o: None)(op)
    return op


CLAUSE = {"entry": "fresh-bindings-on-entry", "chk": "check-verdict", "argchk": "argument-value-verdict",
          "tree": "pytree-verdict", "pb": "print_bindings", "outcome": "outcome", "post": "caller-bindings-restored",
          "raw-contents-changed": "caller-bindings-restored", "final": "stack-empty-at-top-level",
          "uncaught-at-top": "outcome"}


def first_difference(program, mev, rev):
    for i in range(max(len(mev), len(rev))):
        a = mev[i] if i < len(mev) else ("<end of trace>", "", None)
        b = rev[i] if i < len(rev) else ("<end of trace>", "", None)
        if a != b:
            if a[0] == b[0] and a[1] == b[1]:
                clause = CLAUSE.get(a[0], a[0])
                if a[0] == "post" and op_at(program, a[1]) is not None and op_at(program, a[1])[0] in ("chk", "tree", "argchk"):
                    clause = "bindings-after-check"
            elif b[0] == "raw-contents-changed":
                clause = "caller-bindings-restored"
            else:
                clause = "trace-shape(body not run once / extra events)"
            where = b[1] if (b[1] and b[0] != "<end of trace>") else a[1]
            if a[0] == "<end of trace>" or (b[0] == "raw-contents-changed"):
                where = b[1]
            op = op_at(program, where) if where else None
            return {"index": i, "expected": a, "actual": b, "clause": clause, "op": op, "where": where}
    return None


def case_id(diff):
    op = diff["op"]
    if op is None:
        desc = "toplevel"
    elif op[0] == "call":
        desc = "call:%s:%s%s" % (op[1], op[5], "" if op[6] else ":propagating")
    elif op[0] == "badcall":
        desc = "badcall:%s:%s" % (op[1], op[2])
    elif op[0] == "ctx":
        desc = "ctx:%s%s" % (op[2], "" if op[3] else ":propagating")
    elif op[0] == "gen":
        desc = "gen:%s:%s:%s" % (op[1], op[5], "deferred" if op[6] else "immediate")
    elif op[0] == "chk":
        desc = "chk:%s" % op[1].replace(" ", "_")
    else:
        desc = op[0]
    return "C05:%s:%s" % (desc, diff["clause"].split("(")[0])


def sub_programs(program):
    """programs with one op removed / one body hoisted (for shrinking)"""
    def rec(ops):
        for i, op in enumerate(ops):
            yield ops[:i] + ops[i + 1:]
            bi = {"call": 4, "ctx": 1, "gen": 4}.get(op[0])
            if bi is not None:
                for nb in rec(op[bi]):
                    new = list(op)
                    new[bi] = nb
                    yield ops[:i] + [new] + ops[i + 1:]
    return rec(program)


def shrink(env, program, cid, budget=150):
    cur = program
    improved = True
    while improved and budget > 0:
        improved = False
        for cand in sub_programs(cur):
            budget -= 1
            if budget <= 0:
                break
            try:
                mev, rev = run_program(env, cand)
            except Exception:  # noqa: BLE001
                continue
            d = first_difference(cand, mev, rev)
            if d is not None and case_id(d) == cid:
                cur, improved = cand, True
                break
    return cur


def strip_ids(ev):
    """event without process-dependent ids, for display"""
    kind, path, payload = ev
    if kind == "raw-contents-changed":
        payload = [[p[0], p[1], p[2], p[3], sorted(k for k, _ in p[4])] for p in payload]
    if isinstance(payload, tuple) and len(payload) == 6:
        payload = {"depth": payload[0], "single": payload[1], "variadic": payload[2], "pytree": payload[3],
                   "argument_names": payload[5]}
    return [kind, path, payload]


def replay(program, repo=None):
    """run one program against the real jaxtyping and print the first disagreement with the model (None = agree)"""
    import jaxtyping
    env = build_env(jaxtyping)
    mev, rev = run_program(env, program)
    d = first_difference(program, mev, rev)
    if d is None:
        print("agree")
        return None
    out = {"case": case_id(d), "expected": strip_ids(d["expected"]), "actual": strip_ids(d["actual"])}
    print(json.dumps(out, default=repr))
    return out


# ----------------------------------------------------------------------------------------------------------------------
# generation
# ----------------------------------------------------------------------------------------------------------------------
def gen_body(rng, depth, maxd, top=False):
    n = rng.randint(2, 5) if top else rng.randint(0, 3)
    return [gen_op(rng, depth, maxd) for _ in range(n)]


def gen_call(rng, depth, maxd, kind=None):
    kind = kind or rng.choice(FN_KINDS)
    ex = rng.choice(exits_for(kind)) if rng.random() < 0.6 else "return"
    return ["call", kind, rng.randint(1, 3), rng.randint(1, 3), gen_body(rng, depth + 1, maxd), ex, rng.random() < 0.7]


def gen_op(rng, depth, maxd):
    r = rng.random()
    can_nest = depth < maxd
    if r < 0.30 or (not can_nest and r < 0.72):
        d = rng.choice(DIMSTRS)
        rank = len(d.split())
        if "*" in d:
            rank = rng.choice([rank - 1, rank, rank + 1])
        elif rng.random() < 0.1:
            rank += 1
        return ["chk", d, [rng.randint(1, 3) for _ in range(rank)]]
    if r < 0.38 or not can_nest and r < 0.85:
        return ["argchk", rng.randint(1, 3)]
    if r < 0.44 or not can_nest and r < 0.92:
        return ["tree", rng.choice(["T", "S"]), rng.choice(sorted(TREES))]
    if r < 0.48 or not can_nest:
        return ["pb"]
    if r < 0.74:
        return gen_call(rng, depth, maxd)
    if r < 0.82:
        return ["ctx", gen_body(rng, depth + 1, maxd), rng.choice(exits_for("ctx")) if rng.random() < 0.6 else "return",
                rng.random() < 0.7]
    if r < 0.92:
        kind = rng.choice(GEN_KINDS)
        return ["gen", kind, rng.randint(1, 3), rng.randint(1, 3), gen_body(rng, depth + 1, maxd),
                rng.choice(exits_for(kind)) if rng.random() < 0.4 else "return", rng.random() < 0.5, rng.random() < 0.8]
    if r < 0.96:
        return ["badcall", rng.choice(CHECKED if rng.random() < 0.5 else FN_KINDS), "nobind"] if rng.random() < 0.4 else \
            ["badcall", rng.choice(CHECKED), "illtyped"]
    return ["consume", rng.random() < 0.8]


def wrap(outer, body, size=3, k=2):
    if outer == "top":
        return body
    if outer == "ctx":
        return [["ctx", body, "return", True]]
    return [["call", outer, size, k, body, "return", True]]


def systematic(tier):
    """every (outer context, inner construct, exit) combination once; plus recursion ladders"""
    progs = []
    outers = ("top", "ctx") + FN_KINDS if tier == "thorough" else ("top", "ctx", "tg", "bt", "old_bt", "none", "dc_tg")
    for outer in outers:
        for inner in FN_KINDS + ("ctx",) + GEN_KINDS:
            for ex in exits_for(inner):
                inner_body = [["chk", "m", [3]], ["chk", "n", [1]], ["argchk", 1], ["tree", "T", "list2"], ["pb"]]
                if inner == "ctx":
                    iop = ["ctx", inner_body, ex, True]
                elif inner in GEN_KINDS:
                    iop = ["gen", inner, 1, 1, inner_body, ex, False, True]
                else:
                    iop = ["call", inner, 1, 1, inner_body, ex, True]
                body = [["chk", "m", [2]], ["tree", "T", "tuple2"], ["chk", "*b", [2, 2]], iop,
                        ["chk", "m", [2]], ["chk", "m", [3]], ["chk", "n", [3]], ["chk", "n", [2]], ["argchk", 2],
                        ["tree", "T", "tuple2"], ["tree", "T", "list2"], ["chk", "*b", [2, 2]], ["chk", "*b", [3]], ["pb"]]
                progs.append(wrap(outer, body))
                if ex.startswith("raise:") and inner not in GEN_KINDS:
                    # the exception unwinds through one more decorated call before it is caught
                    iop2 = list(iop)
                    iop2[-1] = False
                    mid = ["call", "tg" if outer != "tg" else "bt", 2, 3, [["chk", "m", [1]], iop2, ["chk", "m", [1]]], "return", True]
                    body2 = [["chk", "m", [2]], mid, ["chk", "m", [2]], ["chk", "m", [3]], ["argchk", 2], ["pb"]]
                    progs.append(wrap(outer, body2))
        # rejected calls (ill-typed argument: body must not run; non-binding argument list) leave the caller untouched
        for kind in FN_KINDS:
            for mode in ("illtyped", "nobind"):
                if mode == "illtyped" and kind not in CHECKED:
                    continue
                progs.append(wrap(outer, [["chk", "m", [2]], ["badcall", kind, mode], ["chk", "m", [2]], ["chk", "m", [3]],
                                          ["chk", "n", [3]], ["argchk", 2], ["pb"]]))
    # recursion: the same decorated function re-entered, a fresh n at every depth, unwinding by return or exception
    for kind in FN_KINDS:
        if kind.startswith("dc_"):
            continue
        for ex in ("return",) + RAISES:
            for catch_level in (0, 2):
                depth = 5 if tier == "thorough" else 4
                op = ["call", kind, depth + 1, 1, [["chk", "n", [depth + 1]], ["chk", "m", [depth + 1]]], ex, depth == catch_level]
                for d in range(depth - 1, -1, -1):
                    op = ["call", kind, d + 1, (d % 3) + 1,
                          [["chk", "m", [d + 1]], op, ["chk", "m", [d + 1]], ["chk", "n", [d + 1]], ["argchk", (d % 3) + 1]],
                          "return", d == catch_level or d == 0]
                progs.append([op, ["chk", "n", [2]], ["chk", "n", [3]], ["pb"]])
    # statelessness outside every context, after all kinds of exits
    for kind in FN_KINDS + ("ctx",):
        for ex in exits_for(kind):
            iop = ["ctx", [["chk", "n", [2]]], ex, True] if kind == "ctx" else ["call", kind, 2, 1, [["chk", "m", [2]]], ex, True]
            progs.append([["chk", "n", [2]], ["chk", "n", [3]], iop, ["chk", "n", [3]], ["chk", "n", [2]], ["chk", "m", [3]],
                          ["tree", "T", "list2"], ["tree", "T", "leaf"], ["pb"]])
    return progs


def has_context(program):
    return any(op[0] in ("call", "ctx", "gen", "badcall") for op in program) or False



def _scrub(x):
    """remove process-dependent addresses so that the output is identical for identical seeds"""
    import re
    if isinstance(x, str):
        return re.sub(r"0x[0-9a-fA-F]+", "0x...", x)
    if isinstance(x, list):
        return [_scrub(v) for v in x]
    if isinstance(x, tuple):
        return [_scrub(v) for v in x]
    if isinstance(x, dict):
        return {k: _scrub(v) for k, v in x.items()}
    return x


def main():
    a = _common.setup(__doc__)
    import jaxtyping
    tally = _common.Tally()
    env = build_env(jaxtyping)
    rng = random.Random(a.seed)
    n_random = 1500 if a.tier == "quick" else 20000
    maxd = 4 if a.tier == "quick" else 6
    programs = [("sys%d" % i, p) for i, p in enumerate(systematic(a.tier))]
    programs += [("rnd%d" % i, gen_body(rng, 0, maxd, top=True)) for i in range(n_random)]
    seen_cases = {}
    n_events = 0
    for name, program in programs:
        key = json.dumps(program)
        mev, rev = run_program(env, program)
        n_events += len(mev)
        tally.case(key, nontrivial=has_context(program),
                   sample={"program": program, "events_compared": len(mev)} if name in ("sys0", "rnd0", "rnd1") else None)
        d = first_difference(program, mev, rev)
        if d is None:
            continue
        cid = case_id(d)
        if cid in seen_cases:
            seen_cases[cid]["count"] += 1
            continue
        small = shrink(env, program, cid)
        mev, rev = run_program(env, small)
        d2 = first_difference(small, mev, rev)
        if d2 is None or case_id(d2) != cid:
            small, d2 = program, d
        rec = {"count": 1}
        seen_cases[cid] = rec
        tally.fail(cid, d2["clause"], input={"program": small, "at_op": d2["op"], "event_index": d2["index"]},
                   expected=strip_ids(d2["expected"]), actual=strip_ids(d2["actual"]),
                   snippet="# PYTHONPATH=<repo>:/verif  (prints the first event where real jaxtyping and the model differ)\n"
                           "from bounded.b05_contexts import replay\nreplay(%s)" % json.dumps(small))
    for f in tally.failures:
        f["occurrences"] = seen_cases[f["case"]]["count"]
    tally.failures = _scrub(tally.failures)
    _common.emit(
        tally,
        bound=("programs = trees of operations, nesting depth <= %d: decorated calls of kinds %s (new style typeguard/beartype, old style "
               "jaxtyped(typechecked(f)), typechecker=None, dataclass __init__, method, classmethod, staticmethod), `with jaxtyped('context')` "
               "blocks, generator/coroutine creation (%s; new style and typechecker=None only - under old style typeguard checks the arguments "
               "when the generator/coroutine is consumed, about which the statement is silent) consumed immediately or later in another "
               "frame, isinstance checks against Shaped[ndarray, d] for d in %s with sizes 1..3, PyTree[int, 'T'/'S'] checks, '{k}' argument "
               "checks (only where the innermost open context is a decorated call with argument k), print_bindings(); exits: return, "
               "ill-typed return value, raise of %s, ill-typed argument, non-binding call; caught at the call site or propagating through "
               "the enclosing calls. %d systematic programs (every outer context x inner construct x exit, recursion ladders of one "
               "function re-entered %s times, top-level statelessness after every exit) + %d seeded random programs."
               % (maxd, list(FN_KINDS), list(GEN_KINDS), list(DIMSTRS), [r[6:] for r in RAISES], len(programs) - n_random,
                  "6" if a.tier == "thorough" else "5", n_random)),
        rule=("each program is run by one walker under a model back end (stack of frames written from the statement) and under the real "
              "decorated functions; traces of (entry snapshot, check verdict, call outcome incl. identity of result/exception, snapshot of "
              "depth + all four memo dicts after every operation, raw before/after equality around every call/block/creation, final "
              "top-level snapshot) must be equal; a program is non-trivial when it opens at least one context; distinct = distinct program text; "
              "%d events compared" % n_events),
        exhaustive=False,
        events_compared=n_events,
        seconds=round(__import__("time").time() - a.t0, 1),
    )


if __name__ == "__main__":
    main()
