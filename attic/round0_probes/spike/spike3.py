"""Throw-away spike 3: the REAL new-style wrapped_fn + wrapped_fn_impl closures (read from source).
Obligations: O1 stack balanced on every exit (C05); O2 fn called exactly once / never (C07);
O3 at every shape_str(memos) call the captured memo handles ARE the current top frame (C13);
O4 disabled branch calls only fn and never pushes (C19)."""
import ast, sys, itertools, collections
from z3 import *
REPO = sys.argv[1] if len(sys.argv) > 1 else "/repo"
MOD = ast.parse(open(f"{REPO}/jaxtyping/_decorator.py").read())
jaxtyped = [n for n in MOD.body if isinstance(n, ast.FunctionDef) and n.name == "jaxtyped"][-1]  # last definition wins (earlier ones are @overload stubs)
nested = [n for n in ast.walk(jaxtyped) if isinstance(n, ast.FunctionDef)]
wrapped = [n for n in nested if n.name == "wrapped_fn"]
assert len(wrapped) == 2, "undecided: expected two wrapped_fn closures"
new_wrapped = next(w for w in wrapped if any(isinstance(c, ast.Call) and getattr(c.func, "id", "") == "wrapped_fn_impl" for c in ast.walk(w)))
impl = next(n for n in nested if n.name == "wrapped_fn_impl")

SUB = {  # exception hierarchy (class -> ancestors incl. itself)
    "AnnotationError": {"AnnotationError", "Exception", "BaseException"},
    "TypeCheckError": {"TypeCheckError", "TypeError", "Exception", "BaseException"},
    "TypeError": {"TypeError", "Exception", "BaseException"},
    "AttributeError": {"AttributeError", "Exception", "BaseException"},
    "ExceptionSub": {"Exception", "BaseException"},          # any other Exception subclass
    "NonExceptionBase": {"BaseException"},                    # KeyboardInterrupt, SystemExit, GeneratorExit ...
}
C = DeclareSort("Contents")
class H:  # handle
    ids = itertools.count()
    def __init__(s, tag): s.id, s.tag, s.c = next(H.ids), tag, None
class St:
    def __init__(s): s.env, s.pc, s.pushed, s.cont, s.log, s.obl, s.cur = {}, [], [], {}, [], [], None
    def clone(s):
        t = St(); t.env = dict(s.env); t.pc = list(s.pc); t.pushed = list(s.pushed); t.cont = dict(s.cont)
        t.log = list(s.log); t.obl = s.obl; t.cur = s.cur; return t
def fresh_frame(st, tag):
    hs = tuple(H(f"{tag}{i}") for i in range(4))
    for h in hs: st.cont[h.id] = FreshConst(C, tag)
    return hs
def user_frame_havoc(st):
    """T4: user/typechecker code may run any balanced sequence of public operations: the contents of the top
    frame change arbitrarily and - because a failed check calls set_shape_memo - its dicts may be REPLACED."""
    outs = []
    a = st.clone()                                           # no failed check happened: same dicts, new contents
    if a.pushed:
        for h in a.pushed[-1]: a.cont[h.id] = FreshConst(C, "mut")
    outs.append(a)
    if st.pushed:
        b = st.clone(); b.pushed[-1] = fresh_frame(b, "replaced"); outs.append(b)   # some check failed & rolled back
    return outs

OPAQUE_USER = {"param_fn": ["AnnotationError", "ExceptionSub", "NonExceptionBase"],
               "full_fn": ["AnnotationError", "ExceptionSub", "NonExceptionBase"],
               "fn": ["ExceptionSub", "NonExceptionBase", "AnnotationError"],
               "_get_problem_arg": ["TypeCheckError", "ExceptionSub", "NonExceptionBase"]}   # NoReturn: never returns normally
PURE = {"_pformat", "_remove_typing", "getattr", "TypeCheckError", "str", "startswith", "endswith"}

def call(name, args, st):
    if name in OPAQUE_USER:
        outs = []
        for s1 in user_frame_havoc(st):
            s1.log.append(name)
            if name != "_get_problem_arg": outs.append((s1.clone(), ("val", f"ret:{name}")))
            for cls in OPAQUE_USER[name]: outs.append((s1.clone(), ("raise", cls)))
        return outs
    if name == "bind": return [(st, ("val", "bound")), (st, ("raise", "TypeError"))]
    if name == "apply_defaults": return [(st, ("val", None))]
    if name == "push_shape_memo":
        s1 = st.clone(); fr = fresh_frame(s1, "pushed"); s1.pushed.append(fr); return [(s1, ("val", fr))]
    if name == "pop_shape_memo":
        s1 = st.clone(); s1.obl.append(("pop: stack non-empty", bool(s1.pushed) or "caller-frame"));
        if s1.pushed: s1.pushed.pop()
        else: s1.env["__underflow__"] = True
        return [(s1, ("val", None))]
    if name == "get_shape_memo":
        return [(st, ("val", st.pushed[-1] if st.pushed else fresh_frame(st, "stateless")))]
    if name == "shape_str":
        memos = args[0]
        if isinstance(memos, tuple) and st.pushed:
            top = st.pushed[-1]
            same = And(*[st.cont[a.id] == st.cont[b.id] for a, b in zip(memos[:3], top[:3])]) if all(isinstance(a, H) for a in memos) else BoolVal(False)
            ident = all(a is b for a, b in zip(memos, top))
            st.obl.append(("O3 shape_str(memos): captured memo == current top frame", ident, same, list(st.pc)))
        return [(st, ("val", "shape-info"))]
    if name == "wrapped_fn_impl":
        sub = St.clone(st); sub.env = dict(zip([a.arg for a in impl.args.args], args)); sub.env.update({k: v for k, v in st.env.items() if k not in sub.env})
        outs = []
        for s1, o in run(impl.body, sub):
            s1.env = dict(st.env)
            outs.append((s1, ("val", o[1]) if o[0] == "return" else ("val", None) if o[0] == "normal" else o))
        return outs
    if name in PURE or True:
        # weakest contract for everything else that is not user code: pure, may not raise (listed in evidence as assumed-pure)
        return [(st, ("val", f"opaque:{name}"))]

def is_raise(v): return isinstance(v, tuple) and v[0] == "raise"
def ev(e, st):
    """-> [(state, ('val', x) | ('raise', cls))]"""
    if isinstance(e, ast.Name): return [(st, ("val", st.env.get(e.id, f"free:{e.id}")))]
    if isinstance(e, ast.Constant): return [(st, ("val", e.value))]
    if isinstance(e, (ast.JoinedStr, ast.BinOp)):
        outs = [(st, None)]
        for sub in [n for n in ast.iter_child_nodes(e) if isinstance(n, ast.expr)] if isinstance(e, ast.BinOp) else [v.value for v in e.values if isinstance(v, ast.FormattedValue)]:
            nxt = []
            for s0, r in outs:
                if r is not None: nxt.append((s0, r)); continue
                for s1, v in ev(sub, s0): nxt.append((s1, v if is_raise(v) else None))
            outs = nxt
        return [(s0, r if r is not None else ("val", "str")) for s0, r in outs]
    if isinstance(e, ast.Attribute):
        return [(s0, v if is_raise(v) else ("val", f"{v[1]}.{e.attr}" if isinstance(v[1], str) else ("attr", v[1], e.attr))) for s0, v in ev(e.value, st)]
    if isinstance(e, ast.Subscript):
        return [(s0, v if is_raise(v) else ("val", f"sub:{v[1]}")) for s0, v in ev(e.value, st)]
    if isinstance(e, ast.Starred): return ev(e.value, st)
    if isinstance(e, ast.Call):
        f = e.func
        name = f.id if isinstance(f, ast.Name) else f.attr if isinstance(f, ast.Attribute) else "call-result"
        states = [(st, [])]
        pre = [f.value] if isinstance(f, ast.Attribute) else ([f] if not isinstance(f, ast.Name) else [])
        for a in pre + list(e.args) + [k.value for k in e.keywords]:
            nxt = []
            for s0, acc in states:
                if acc and is_raise(acc[-1]): nxt.append((s0, acc)); continue
                for s1, v in ev(a, s0): nxt.append((s1, acc + [v]))
            states = nxt
        outs = []
        for s0, acc in states:
            if acc and is_raise(acc[-1]): outs.append((s0, acc[-1])); continue
            vals = [v[1] for v in acc]
            if pre: vals = vals[1:] if name not in ("startswith", "endswith") else vals
            outs.extend(call(name, vals, s0))
        return outs
    if isinstance(e, ast.BoolOp):
        # opaque booleans: fork on a fresh symbolic truth value per operand (short-circuit)
        outs = []
        def go(i, s0):
            for s1, v in ev(e.values[i], s0):
                if is_raise(v): outs.append((s1, v)); continue
                b = FreshConst(BoolSort(), "cond")
                t = s1.clone(); t.pc.append(b); f_ = s1.clone(); f_.pc.append(Not(b))
                last = i == len(e.values) - 1
                if isinstance(e.op, ast.Or):
                    outs.append((t, ("val", True)))
                    (outs.append((f_, ("val", False))) if last else go(i + 1, f_))
                else:
                    outs.append((f_, ("val", False)))
                    (outs.append((t, ("val", True))) if last else go(i + 1, t))
        go(0, st); return outs
    if isinstance(e, ast.Compare):
        outs = []
        for s0, v in ev(e.left, st):
            if is_raise(v): outs.append((s0, v)); continue
            for s1, w in ev(e.comparators[0], s0):
                if is_raise(w): outs.append((s1, w)); continue
                b = FreshConst(BoolSort(), "cmp"); t = s1.clone(); t.pc.append(b); f_ = s1.clone(); f_.pc.append(Not(b))
                outs += [(t, ("val", True)), (f_, ("val", False))]
        return outs
    raise NotImplementedError(ast.dump(e)[:150])

def truthy(v, st):
    if v[1] is True: return [(st, True)]
    if v[1] is False: return [(st, False)]
    b = FreshConst(BoolSort(), "truth"); t = st.clone(); t.pc.append(b); f = st.clone(); f.pc.append(Not(b))
    return [(t, True), (f, False)]

def run(stmts, st):
    if not stmts: return [(st, ("normal",))]
    s, rest = stmts[0], stmts[1:]; res = []
    def cont(outs):
        for s1, o in outs:
            if o[0] == "normal": res.extend(run(rest, s1))
            else: res.append((s1, o))
    if isinstance(s, ast.Assign):
        outs = []
        for s1, v in ev(s.value, st):
            if is_raise(v): outs.append((s1, v)); continue
            s2 = s1.clone(); t = s.targets[0]
            if isinstance(t, ast.Name): s2.env[t.id] = v[1]
            outs.append((s2, ("normal",)))      # subscript stores (kwargs[output_name] = out) : local dict, no effect on the modelled state
        cont(outs)
    elif isinstance(s, ast.Expr):
        cont([(s1, v if is_raise(v) else ("normal",)) for s1, v in ev(s.value, st)])
    elif isinstance(s, ast.Return):
        if s.value is None: res.append((st, ("return", None)))
        else:
            for s1, v in ev(s.value, st): res.append((s1, v if is_raise(v) else ("return", v[1])))
    elif isinstance(s, ast.If):
        outs = []
        for s1, v in ev(s.test, st):
            if is_raise(v): outs.append((s1, v)); continue
            for s2, b in truthy(v, s1): outs.extend(run(s.body if b else s.orelse, s2))
        cont(outs)
    elif isinstance(s, ast.Raise):
        if s.exc is None: res.append((st, st.cur))
        else:
            for s1, v in ev(s.exc, st):
                if is_raise(v): res.append((s1, v)); continue
                cls = s.exc.func.id if isinstance(s.exc, ast.Call) else "ExceptionSub"
                res.append((s1, ("raise", cls)))
    elif isinstance(s, ast.Try):
        outs = []
        for s1, o in run(s.body, st):
            if o[0] == "raise":
                for h in s.handlers:
                    hn = h.type.id if h.type is not None else "BaseException"
                    if hn in SUB[o[1]]:
                        s2 = s1.clone(); s2.cur = o
                        if h.name: s2.env[h.name] = "exc"
                        outs.extend(run(h.body, s2)); break
                else: outs.append((s1, o))
            elif o[0] == "normal" and s.orelse: outs.extend(run(s.orelse, s1))
            else: outs.append((s1, o))
        if s.finalbody:
            fin = []
            for s1, o in outs:
                for s2, o2 in run(s.finalbody, s1):
                    fin.append((s2, o if o2[0] == "normal" else o2))
            outs = fin
        cont(outs)
    else: raise NotImplementedError(ast.dump(s)[:120])
    return res

st0 = St()
outs = run(new_wrapped.body, st0)
stats = collections.Counter(); bad = []
o3 = {}
for s1, o in outs:
    kind = o[0] if o[0] != "raise" else f"raise {o[1]}"
    stats[kind] += 1
    # O1
    if s1.pushed or s1.env.get("__underflow__"): bad.append(("O1 stack balanced", kind, s1.log))
    nfn = s1.log.count("fn")
    # O2: fn at most once; exactly once on normal return; never after a parameter failure
    if nfn > 1: bad.append(("O2 fn called more than once", kind, s1.log))
    if o[0] == "return" and nfn != 1: bad.append(("O2 return without exactly one fn call", kind, s1.log))
    if "_get_problem_arg" in s1.log and nfn: bad.append(("O2 fn called after parameter failure", kind, s1.log))
    # O4 disabled branch: log == ['fn'] and never pushed  (recognised by: no bind in path => no push)
for (nm, ident, same, pc) in st0.obl if False else []: pass
# O3 obligations were appended to the shared obl list
seen = collections.Counter()
for ob in st0.obl:
    if ob[0].startswith("O3"):
        _, ident, same, pc = ob
        s = Solver(); s.add(*pc); s.add(Not(same)); r = s.check()
        seen[("identical-dicts" if ident else "different-dicts", "PROVED" if r == unsat else "REFUTED")] += 1
print("paths:", len(outs), dict(stats))
print("O1/O2 violations:", len(bad)); [print("  ", b) for b in bad[:6]]
print("O3 (message uses current bindings):", dict(seen))
