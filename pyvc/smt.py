"""Back ends: z3 5.x through the Python API (primary, in a process pool via SMT-LIB text),
/usr/bin/cvc5 and /usr/bin/z3 4.8 as second opinions for unknowns and cross-checks."""
from __future__ import annotations

import multiprocessing as mp
import os
import subprocess
import tempfile
import time

import z3

QUICK_TIMEOUT_MS = int(os.environ.get("VERIF_Z3_TIMEOUT_MS", "20000"))


def _symbols(e, cache):
    key = e.get_id()
    r = cache.get(key)
    if r is not None:
        return r
    out = set()
    stack = [e]
    seen = set()
    while stack:
        x = stack.pop()
        i = x.get_id()
        if i in seen:
            continue
        seen.add(i)
        if z3.is_app(x):
            if x.decl().kind() == z3.Z3_OP_UNINTERPRETED:
                out.add(x.decl().name())
            stack.extend(x.children())
        elif z3.is_quantifier(x):
            stack.append(x.body())
    cache[key] = out
    return out


def slice_pc(pc, goal):
    """cone of influence: the path-condition conjuncts that (transitively) share an uninterpreted symbol with the goal.
    Dropping hypotheses is sound for proving; a `sat` on the slice is re-checked on the full path condition."""
    cache = {}
    want = set(_symbols(goal, cache))
    rest = list(pc)
    kept = []
    changed = True
    while changed:
        changed = False
        nxt = []
        for c in rest:
            sy = _symbols(c, cache)
            if sy & want or not sy:
                kept.append(c)
                if not sy <= want:
                    want |= sy
                    changed = True
            else:
                nxt.append(c)
        rest = nxt
    return kept


def to_query(pc, goal, metas=None):
    """-> (smt2 text, [meta names]) for  pc /\\ not goal  with named meta terms."""
    s = z3.Solver()
    s.add(*pc)
    s.add(z3.Not(goal))
    names = []
    for k, t in (metas or {}).items():
        c = z3.Const(f"meta!{k}", t.sort())
        s.add(c == t)
        names.append(k)
    return s.to_smt2(), names


def _worker(job):
    idx, text, timeout_ms, want_model = job
    t0 = time.time()
    try:
        s = z3.Solver()
        s.set("timeout", timeout_ms)
        s.from_string(text)
        r = s.check()
        model = None
        if r == z3.sat and want_model:
            m = s.model()
            model = {}
            for d in m.decls():
                try:
                    model[d.name()] = str(m[d])[:400]
                except Exception:
                    pass
        reason = s.reason_unknown() if r == z3.unknown else ""
        return idx, str(r), model, (time.time() - t0) * 1000, "z3-" + z3.get_version_string(), reason
    except Exception as e:  # parse errors etc.
        return idx, "error", None, (time.time() - t0) * 1000, "z3", repr(e)[:300]


def run_cli(text, tool, timeout_s):
    """second back end on SMT-LIB text. -> 'unsat' | 'sat' | 'unknown' | 'error'"""
    with tempfile.NamedTemporaryFile("w", suffix=".smt2", delete=False, dir=os.environ.get("VERIF_TMP", None)) as f:
        if tool == "cvc5":
            f.write("(set-logic ALL)\n")
        f.write(text)
        path = f.name
    try:
        if tool == "cvc5":
            cmd = ["/usr/bin/cvc5", "--strings-exp", f"--tlimit={int(timeout_s * 1000)}", path]
        else:
            cmd = ["/usr/bin/z3", f"-T:{int(timeout_s)}", path]
        try:
            p = subprocess.run(cmd, capture_output=True, text=True, timeout=timeout_s + 5)
        except subprocess.TimeoutExpired:
            return "unknown"
        out = (p.stdout or "").strip().splitlines()
        for line in out:
            if line.strip() in ("unsat", "sat", "unknown"):
                return line.strip()
        return "error"
    finally:
        try:
            os.unlink(path)
        except OSError:
            pass


_pool = None


def pool(jobs):
    global _pool
    if _pool is None:
        _pool = mp.get_context("fork").Pool(jobs)
    return _pool


def discharge(obligations, jobs=None, timeout_ms=None, cross=False):
    """obligations: list of dicts with pc, goal, (meta), kind in vc|canary.
    Adds: status proved|refuted|unknown|error, ms, backend, model, reason. Returns the list."""
    jobs = jobs or min(16, os.cpu_count() or 4)
    timeout_ms = timeout_ms or QUICK_TIMEOUT_MS
    texts = []
    work = []
    sliced = {}
    for i, ob in enumerate(obligations):
        g = ob["goal"]
        if z3.is_true(g) and ob.get("kind", "vc") == "vc":
            # structural obligation already decided by the executor's heap / call-log bookkeeping on this path
            ob.update(status="proved", ms=0.0, backend="executor(structural)", reason="", model=None, solver_result="valid")
            texts.append(None)
            continue
        metas = {k: v for k, v in (ob.get("meta") or {}).items() if isinstance(v, z3.ExprRef)}
        text, _ = to_query(ob["pc"], g, metas)
        texts.append(text)
        sl = slice_pc(ob["pc"], g) if ob.get("kind", "vc") == "vc" else ob["pc"]
        if len(sl) < len(ob["pc"]):
            sliced[i] = to_query(sl, g, None)[0]
        work.append((i, sliced.get(i, text), timeout_ms, True))
    if len(work) <= 2 or jobs == 1:
        results = [_worker(w) for w in work]
    else:
        results = pool(jobs).map(_worker, work, chunksize=1)
    # anything not proved on its slice is re-run on the full path condition (models must satisfy all of it)
    redo = [(idx, texts[idx], timeout_ms, True) for idx, r, *_ in results if idx in sliced and r != "unsat"]
    if redo:
        again = {x[0]: x for x in ([_worker(w) for w in redo] if len(redo) <= 2 or jobs == 1 else pool(jobs).map(_worker, redo, chunksize=1))}
        results = [again.get(x[0], x) for x in results]
    for idx, r, model, ms, backend, reason in results:
        ob = obligations[idx]
        ob["ms"] = round(ms, 1)
        ob["backend"] = backend
        ob["reason"] = reason
        ob["model"] = model
        ob["solver_result"] = r
        if r in ("unknown", "error"):
            # second opinions
            for tool in ("cvc5", "z3-4.8"):
                r2 = run_cli(texts[idx], "cvc5" if tool == "cvc5" else "z3", 30)
                if r2 in ("unsat", "sat"):
                    ob["backend"] = tool
                    ob["solver_result"] = r2
                    r = r2
                    break
        if r not in ("unsat", "sat") and ob.get("hints"):
            # model search under extra finite-size hints (alternatives tried in order): a model of
            # pc /\ not goal /\ hint is a genuine counter-model
            alts = ob["hints"] if ob["hints"] and isinstance(ob["hints"][0], (list, tuple)) else [ob["hints"]]
            for alt in alts:
                t2, _ = to_query(list(ob["pc"]) + list(alt), ob["goal"], {k: v for k, v in (ob.get("meta") or {}).items() if isinstance(v, z3.ExprRef)})
                _, r3, model3, ms3, be3, _ = _worker((idx, t2, min(timeout_ms, 5000), True))
                if r3 == "sat":
                    r = "sat"
                    ob.update(model=model3, backend=be3 + "+size-hints", solver_result="sat")
                    break
        ob["status"] = {"unsat": "proved", "sat": "refuted"}.get(r, "unknown")
        if cross and r in ("unsat", "sat"):
            r2 = run_cli(texts[idx], "z3", 30)
            ob["cross"] = r2
            if r2 in ("unsat", "sat") and r2 != r:
                ob["status"] = "disagree"
    return obligations
