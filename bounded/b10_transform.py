"""b10_transform -- bounded stand-in for C10.

C10: the source transformation used by the import hook / IPython magic changes a module in exactly three
ways: ONE `import jaxtyping` after the docstring and the `__future__` imports, one
`jaxtyping.jaxtyped(typechecker=...)` decorator placed INNERMOST (last) on every synchronous def at any depth,
one placed OUTERMOST (first) on every class.  Every other node, every line/column, the docstring and the
`__future__` flags are unchanged, the result always compiles, and a hooked module with well-typed calls
behaves like the plain module.

Oracle (written from that text, not from the transformer): parse the source a second time (pristine), run the
real transformer on the first parse, then *undo* the three permitted additions with our own `strip()` --
verifying that each removed node is what the statement allows -- and demand `ast.dump(include_attributes=True)`
equality with the pristine parse.  Plus compile / co_flags / docstring / nested-code checks and, for generated
modules, an exec of plain vs transformed source comparing a recorded trace.
"""
import ast
import json
import os
import random
import shutil
import subprocess
import sys
import sysconfig
import tempfile
import time
import traceback
import types
import warnings

sys.path.insert(0, os.path.dirname(os.path.abspath(__file__)))
import _common  # noqa: E402

warnings.simplefilter("ignore")

FUTURE_MASK = 0
import __future__ as _fut  # noqa: E402

for _n in _fut.all_feature_names:
    FUTURE_MASK |= getattr(_fut, _n).compiler_flag


# ----------------------------------------------------------------------------------------------------
# independent oracle pieces
# ----------------------------------------------------------------------------------------------------
def leading_run(body):
    """Number of leading statements forming [docstring]? (from __future__ import ...)*  -- from the statement."""
    i = 0
    if body and isinstance(body[0], ast.Expr) and isinstance(body[0].value, ast.Constant) and isinstance(body[0].value.value, str):
        i = 1
    while i < len(body) and isinstance(body[i], ast.ImportFrom) and body[i].module == "__future__" and not body[i].level:
        i += 1
    return i


def is_plain_import_jaxtyping(st):
    return (isinstance(st, ast.Import) and len(st.names) == 1 and st.names[0].name == "jaxtyping"
            and st.names[0].asname is None)


def jaxtyped_call_shape(node):
    """None if `node` is syntactically `jaxtyping.jaxtyped(typechecker=<expr>)`, else a description of what is wrong."""
    if not isinstance(node, ast.Call):
        return "not a call: " + type(node).__name__
    f = node.func
    if not (isinstance(f, ast.Attribute) and f.attr == "jaxtyped" and isinstance(f.value, ast.Name) and f.value.id == "jaxtyping"
            and isinstance(f.value.ctx, ast.Load)):
        return "callee is not jaxtyping.jaxtyped: " + ast.dump(f)[:120]
    if node.args:
        return "positional arguments present"
    if len(node.keywords) != 1 or node.keywords[0].arg != "typechecker":
        return "keywords are not exactly (typechecker=...)"
    return None


_checker_kind_cache = {}


def checker_kind(expr_node):
    """Evaluate the `typechecker=` expression of an added decorator against the real package and classify what the
    resulting decorator does to `def g(x: int)`: 'typeguard' / 'beartype' / 'identity' / 'other:...'."""
    key = ast.dump(expr_node)
    if key in _checker_kind_cache:
        return _checker_kind_cache[key]
    import jaxtyping
    try:
        e = ast.Expression(body=expr_node)
        tc = eval(compile(ast.fix_missing_locations(e), "<typechecker-expr>", "eval"), {"jaxtyping": jaxtyping})
        ns = {}
        exec("def g(x: int):\n    return x\n", ns)
        g = ns["g"]
        g2 = tc(g)
        if g2 is g:
            kind = "identity"
        else:
            try:
                g2("not an int")
                kind = "other:no-check"
            except BaseException as ex:  # noqa
                mod = type(ex).__module__ or ""
                if mod.startswith("beartype"):
                    kind = "beartype"
                elif isinstance(ex, TypeError) and (getattr(g2, "__module__", None) == g.__module__) and "typeguard" in _tb_modules(ex):
                    kind = "typeguard"
                else:
                    kind = "other:" + type(ex).__name__
    except BaseException as ex:  # noqa
        kind = "error:" + type(ex).__name__ + ":" + str(ex)[:80]
    _checker_kind_cache[key] = kind
    return kind


def _tb_modules(ex):
    out = set()
    tb = ex.__traceback__
    while tb is not None:
        out.add(tb.tb_frame.f_globals.get("__name__", "").split(".")[0])
        tb = tb.tb_next
    return out


def contains_def(st):
    for n in ast.walk(st):
        if isinstance(n, (ast.FunctionDef, ast.ClassDef)):
            return True
    return False


def strip(tree, expect_kind, problems):
    """Undo the permitted additions in place. Appends (clause, detail) to problems. Returns #decorators removed."""
    removed = 0
    for n in ast.walk(tree):
        if isinstance(n, ast.FunctionDef):
            if not n.decorator_list:
                problems.append(("def-not-decorated", f"def {n.name} line {n.lineno}: no decorator at all"))
                continue
            d = n.decorator_list[-1]
            why = jaxtyped_call_shape(d)
            if why:
                problems.append(("def-innermost-decorator", f"def {n.name} line {n.lineno}: last decorator {why}"))
                continue
            k = checker_kind(d.keywords[0].value)
            if k != expect_kind:
                problems.append(("decorator-typechecker", f"def {n.name} line {n.lineno}: typechecker expr behaves as {k}, expected {expect_kind}"))
            n.decorator_list = n.decorator_list[:-1]
            removed += 1
        elif isinstance(n, ast.ClassDef):
            if not n.decorator_list:
                problems.append(("class-not-decorated", f"class {n.name} line {n.lineno}: no decorator at all"))
                continue
            d = n.decorator_list[0]
            why = jaxtyped_call_shape(d)
            if why:
                problems.append(("class-outermost-decorator", f"class {n.name} line {n.lineno}: first decorator {why}"))
                continue
            k = checker_kind(d.keywords[0].value)
            if k != expect_kind:
                problems.append(("decorator-typechecker", f"class {n.name} line {n.lineno}: typechecker expr behaves as {k}, expected {expect_kind}"))
            n.decorator_list = n.decorator_list[1:]
            removed += 1
    return removed


def code_objects(code):
    """Nested code objects, depth first in co_consts order (module excluded)."""
    out = []
    for c in code.co_consts:
        if isinstance(c, types.CodeType):
            out.append(c)
            out.extend(code_objects(c))
    return out


def is_leaf(c):
    return not any(isinstance(k, types.CodeType) for k in c.co_consts)


def looks_like_class_body(c):
    # class bodies and the PEP 695 "<generic parameters of X>" scopes: their first line is the first decorator's
    return c.co_names[:3] == ("__name__", "__module__", "__qualname__") or c.co_name.startswith("<generic parameters of")


def canon_const(k):
    if isinstance(k, tuple):
        return ("tuple",) + tuple(canon_const(x) for x in k)
    if isinstance(k, frozenset):
        return ("frozenset",) + tuple(sorted(repr(x) for x in k))
    return (type(k).__name__, repr(k))  # repr: nan, -0.0, lone surrogates compare reliably


def per_offset_lines(c):
    out = []
    for s, e, ln in c.co_lines():
        out.extend([ln] * ((e - s) // 2))
    return tuple(out)


def code_summary(c):
    consts = tuple(canon_const(k) for k in c.co_consts if not isinstance(k, types.CodeType))
    if looks_like_class_body(c):
        # the class statement's own first line may move from the first decorator to the `class` keyword (excluded, see bound)
        if not is_leaf(c):
            return ("class", c.co_qualname)
        return ("class", c.co_qualname, None, c.co_code, consts, c.co_names)
    if is_leaf(c):
        return ("leaf", c.co_qualname, c.co_firstlineno, c.co_code, per_offset_lines(c), consts, c.co_names, c.co_varnames, c.co_flags)
    return ("inner", c.co_qualname, c.co_firstlineno, c.co_flags)


def first_diff(a, b):
    n = min(len(a), len(b))
    for i in range(n):
        if a[i] != b[i]:
            return f"at char {i}: ...{a[max(0, i - 60):i + 60]!r} vs ...{b[max(0, i - 60):i + 60]!r}"
    return f"length {len(a)} vs {len(b)}; tail {a[n:n + 80]!r} / {b[n:n + 80]!r}"


# ----------------------------------------------------------------------------------------------------
# one static case
# ----------------------------------------------------------------------------------------------------
def transform_real(tree, checker):
    from jaxtyping._import_hook import JaxtypingTransformer, Typechecker
    out = JaxtypingTransformer(typechecker=Typechecker(checker)).visit(tree)
    ast.fix_missing_locations(out if isinstance(out, ast.AST) else tree)
    return out


def static_check(src, filename, checker="typeguard.typechecked", transform=None):
    """Returns dict(skip=reason) or dict(problems=[(clause, detail)], ndefs=..., nclasses=..., nasync=..., nlambda=...)."""
    expect_kind = {"typeguard.typechecked": "typeguard", "beartype.beartype": "beartype", None: "identity"}[checker]
    try:
        plain_code = compile(src, filename, "exec", dont_inherit=True)
        pristine = ast.parse(src, filename)
        tree = ast.parse(src, filename)
    except (SyntaxError, ValueError, RecursionError, MemoryError, OverflowError) as e:
        return {"skip": "original does not compile: " + type(e).__name__}
    orig_dump = ast.dump(pristine, include_attributes=True)
    nd = sum(isinstance(n, ast.FunctionDef) for n in ast.walk(pristine))
    nc = sum(isinstance(n, ast.ClassDef) for n in ast.walk(pristine))
    na = sum(isinstance(n, ast.AsyncFunctionDef) for n in ast.walk(pristine))
    nl = sum(isinstance(n, ast.Lambda) for n in ast.walk(pristine))
    binds_jaxtyping = any(isinstance(n, ast.Name) and n.id == "jaxtyping" and isinstance(n.ctx, (ast.Store, ast.Del)) for n in ast.walk(pristine))
    info = {"ndefs": nd, "nclasses": nc, "nasync": na, "nlambda": nl, "binds_jaxtyping": binds_jaxtyping, "problems": []}
    P = info["problems"]
    try:
        new = (transform or (lambda t: transform_real(t, checker)))(tree)
    except BaseException as e:  # noqa  (result of the code under test)
        P.append(("transform-raises", f"{type(e).__name__}: {e}"[:300]))
        return info
    if not isinstance(new, ast.Module):
        P.append(("transform-result", f"transformer returned {type(new).__name__}, not ast.Module"))
        return info

    # --- compile, flags, docstring
    new_code = None
    try:
        new_code = compile(new, filename, "exec", dont_inherit=True)
    except BaseException as e:  # noqa
        P.append(("compiles", f"{type(e).__name__}: {e}"[:300]))
    if new_code is not None:
        if (new_code.co_flags & FUTURE_MASK) != (plain_code.co_flags & FUTURE_MASK) or new_code.co_flags != plain_code.co_flags:
            P.append(("future-flags", f"co_flags {plain_code.co_flags:#x} -> {new_code.co_flags:#x}"))
        if transform is None and isinstance(src, str):
            # the same through the real loader's own compile step (its module's __future__ flags must not leak into the hooked module)
            try:
                from jaxtyping._import_hook import _JaxtypingLoader, Typechecker
                lc = _JaxtypingLoader("b10_mod", filename, typechecker=Typechecker(checker)).source_to_code(src.encode("utf-8"), filename)
                sub = [c for c in lc.co_consts if hasattr(c, "co_flags")]
                psub = [c for c in plain_code.co_consts if hasattr(c, "co_flags")]
                if (lc.co_flags & FUTURE_MASK) != (plain_code.co_flags & FUTURE_MASK) or [c.co_flags & FUTURE_MASK for c in sub][:len(psub)] != [c.co_flags & FUTURE_MASK for c in psub][:len(sub)]:
                    P.append(("future-flags", f"through _JaxtypingLoader.source_to_code: co_flags {plain_code.co_flags:#x} -> {lc.co_flags:#x}"))
            except (SyntaxError, ValueError, UnicodeError) as e:
                P.append(("compiles", f"_JaxtypingLoader.source_to_code: {type(e).__name__}: {e}"[:300]))
        doc = ast.get_docstring(pristine, clean=False)
        if ("__doc__" in new_code.co_names) != ("__doc__" in plain_code.co_names) or (doc is not None and doc not in new_code.co_consts):
            P.append(("docstring", "module docstring no longer stored by the compiled code"))
        ca, cb = code_objects(plain_code), code_objects(new_code)
        a = [code_summary(c) for c in ca]
        b = [code_summary(c) for c in cb]
        if len(a) == len(b):
            for i, (x, y) in enumerate(zip(ca, cb)):
                # a def in dead code (`if 0:`) leaves no nested code object but still registers the decorator's names:
                # such a function is not a leaf in the sense intended; compare it like an inner function
                if a[i] != b[i] and a[i][0] == "leaf" and "jaxtyping" in y.co_names and "jaxtyping" not in x.co_names:
                    a[i] = ("inner", x.co_qualname, x.co_firstlineno, x.co_flags)
                    b[i] = ("inner", y.co_qualname, y.co_firstlineno, y.co_flags)
        if a != b:
            det = f"{len(a)} vs {len(b)} nested code objects"
            for x, y in zip(a, b):
                if x != y:
                    det = f"code object {x[1]!r}: " + ("firstlineno %r -> %r" % (x[2], y[2]) if x[0] != "class" and x[:2] == y[:2] and x[2] != y[2] else "body code differs")
                    break
            P.append(("nested-code", det))
    if ast.get_docstring(new, clean=False) != ast.get_docstring(pristine, clean=False):
        P.append(("docstring", "ast.get_docstring differs"))

    # --- undo the three additions and compare
    removed = strip(new, expect_kind, P)
    if removed != nd + nc and not any(c.endswith("decorated") or c.endswith("decorator") for c, _ in P):
        P.append(("decorator-count", f"removed {removed} decorators, expected {nd + nc}"))
    L = leading_run(pristine.body)
    first_def = next((i for i, st in enumerate(pristine.body) if contains_def(st)), None)
    body = new.body
    cands = [i for i, st in enumerate(body) if is_plain_import_jaxtyping(st)]
    matched = None
    skip_final = False
    asy = lambda t: [[ast.dump(d, include_attributes=True) for d in n.decorator_list] for n in ast.walk(t) if isinstance(n, ast.AsyncFunctionDef)]  # noqa: E731
    if asy(new) != asy(pristine):
        P.append(("async-def-untouched", "decorator list of an `async def` changed"))
    if len(body) == len(pristine.body):
        if nd + nc > 0:
            P.append(("import-missing", "no statement was added although decorators referring to `jaxtyping` were"))
        matched = -1
    elif len(body) == len(pristine.body) + 1:
        deco_trouble = any(c.endswith("decorated") or c.endswith("decorator") for c, _ in P)
        for p in cands:
            new.body = body[:p] + body[p + 1:]
            if ast.dump(new, include_attributes=True) == orig_dump:
                matched = p
                break
        new.body = body
        if matched is None and not cands:
            P.append(("import-statement", "a module-level statement was added that is not `import jaxtyping`"))
        elif matched is None:
            # take the candidate that is new w.r.t. the pristine body (same index holds a different statement there)
            p = next((i for i in cands if i >= len(pristine.body) or not is_plain_import_jaxtyping(pristine.body[i])), cands[0])
            if not deco_trouble:  # otherwise the dump cannot match and the cause is already reported
                new.body = body[:p] + body[p + 1:]
                P.append(("rest-unchanged", first_diff(orig_dump, ast.dump(new, include_attributes=True))))
                new.body = body
            matched = p
            skip_final = True
        if matched is not None:
            if matched < L:
                P.append(("import-position", f"`import jaxtyping` inserted at index {matched}, before the end of the docstring/__future__ run ({L})"))
            if first_def is not None and matched > first_def:
                P.append(("import-position", f"`import jaxtyping` inserted at index {matched}, after the first statement that defines something ({first_def})"))
    else:
        P.append(("module-body-length", f"module body has {len(body)} statements, original {len(pristine.body)}"))
    if matched is not None and not skip_final:
        if matched >= 0:
            new.body = body[:matched] + body[matched + 1:]
        got = ast.dump(new, include_attributes=True)
        if got != orig_dump:
            P.append(("rest-unchanged", first_diff(orig_dump, got)))
    return info


# ----------------------------------------------------------------------------------------------------
# generated modules
# ----------------------------------------------------------------------------------------------------
HEADERS = {
    "none": "",
    "doc": '"""Module docstring.\n\nsecond line"""\n',
    "fut": "from __future__ import annotations\n",
    "doc+fut": '"""Module docstring."""\nfrom __future__ import annotations\n',
    "fut+str": 'from __future__ import annotations\n"""a string after the future import is not a docstring"""\n',
    "doc+fut+fut": "'doc'\nfrom __future__ import annotations\nfrom __future__ import division\n",
    "doc+fut2": "'''doc'''\n\n# comment\nfrom __future__ import (annotations,\n    generator_stop)\n\n",
    "fut;stmt": "from __future__ import annotations; FIRST = 1\n",
    "coding+doc+fut": "# -*- coding: utf-8 -*-\n#!shebang-ish comment\n\n\n'doc \\u00e9'\nfrom __future__ import division, annotations\n",
    "doc+str+int": '"doc"\n"second string statement"\n42\n',
    "emptydoc": '""\n',
    "emptydoc+fut": '""\nfrom __future__ import annotations\n',
    "int-first": "42\n",
    "fstring-first": "f'not a docstring {1}'\n",
    "bytes-first": "b'not a docstring'\n",
    "doc;fut": "'doc'; from __future__ import annotations\n",
    "import-first": "import os\nimport jaxtyping as jt\n",
    "own-import-jaxtyping": "'doc'\nimport jaxtyping\n",
}
QUICK_HEADERS = ["none", "doc", "fut", "doc+fut", "fut+str", "doc+fut+fut", "doc+str+int", "fut;stmt", "emptydoc", "emptydoc+fut"]

PRELUDE = '''TRACE = []
def rec(*a):
    TRACE.append(a)
'''

FRAGMENTS = {
    "plain": '''
def add(x: int, y: int = 2) -> int:
    "adds"
    return x + y
rec("add", add(1), add(1, y=5), add.__name__, add.__qualname__, add.__doc__, add.__module__, add.__annotations__ == {"x": int, "y": int, "return": int} or sorted(add.__annotations__.items()))
''',
    "deco-stack": '''
def tag(label):
    def deco(fn):
        rec("apply", label, getattr(fn, "__name__", None), callable(fn))
        def inner(*a, **k):
            rec("call", label, a, sorted(k))
            return fn(*a, **k)
        inner.__name__ = "w_" + fn.__name__
        return inner
    return deco
@tag("outer")
@tag("mid")
@tag("inner")
def stacked(a: int) -> int:
    return a * 2
@tag("only")
def single(a, *rest, key=None):
    return (a, rest, key)
rec("stacked", stacked(4), stacked.__name__)
rec("single", single(1, 2, 3, key="k"))
''',
    "class-members": '''
import dataclasses
def clsdeco(label):
    def d(c):
        rec("clsapply", label, c.__name__, dataclasses.is_dataclass(c))
        return c
    return d
@clsdeco("top")
@dataclasses.dataclass
@clsdeco("bottom")
class P:
    """class doc"""
    x: int
    y: str = "q"
    def m(self, k: int) -> int:
        return self.x + k
    @staticmethod
    def s(a: int) -> int:
        return a + 1
    @classmethod
    def c(cls, a: int):
        return (cls.__name__, a)
    @property
    def prop(self) -> int:
        return self.x * 10
    @prop.setter
    def prop(self, v: int):
        self.x = v
    def __repr__(self):
        return "P<%d,%s>" % (self.x, self.y)
p = P(3)
rec("P", repr(p), p.m(4), P.s(1), p.s(2), P.c(5), p.c(6), p.prop, P.__doc__, P.__name__, P.__qualname__)
p.prop = 7
rec("P2", p.prop, p == P(7), dataclasses.asdict(p), [f.name for f in dataclasses.fields(P)])
class Plain:
    z = 1
    def __init__(self, a):
        self.a = a
    def get(self):
        return (self.a, self.z)
rec("Plain", Plain(2).get(), type(Plain(2)).__name__)
''',
    "nesting": '''
def outer(n: int):
    total = 0
    def middle(k: int):
        nonlocal total
        def innermost(j: int) -> int:
            return j * n
        total += innermost(k)
        return total
    class Local:
        factor = 2
        def scale(self, v: int) -> int:
            def helper(w):
                return w * self.factor * n
            return helper(v)
        class Deeper:
            def who(self):
                return "deeper"
    return middle(1), middle(2), Local().scale(3), Local.Deeper().who(), Local.Deeper.who.__qualname__
rec("outer", outer(5))
def fact(n: int) -> int:
    return 1 if n <= 1 else n * fact(n - 1)
rec("fact", fact(6))
class A:
    class B:
        class C:
            def f(self):
                return "abc"
            @staticmethod
            def g():
                def h():
                    return "h"
                return h()
rec("ABC", A.B.C().f(), A.B.C.g(), A.B.C.f.__qualname__)
''',
    "control-flow": '''
import contextlib
if len(TRACE) >= 0:
    def chosen():
        return "if-branch"
else:
    def chosen():
        return "else-branch"
try:
    def in_try():
        return "try"
    raise KeyError("x")
except KeyError:
    def in_except():
        return "except"
else:
    def in_else():
        return "else"
finally:
    def in_finally():
        return "finally"
with contextlib.nullcontext():
    def in_with(q: int = 3):
        return q
    class InWith:
        def v(self):
            return "inwith"
fs = []
for i in range(3):
    def in_for(i=i):
        return i
    fs.append(in_for)
k = 0
while k < 2:
    def in_while(k=k):
        return -k
    k += 1
match k:
    case 2:
        def in_match():
            return "two"
    case _:
        def in_match():
            return "other"
rec("cf", chosen(), in_try(), in_except(), in_finally(), in_with(), InWith().v(), [f() for f in fs], in_while(), in_match(), "in_else" in globals())
''',
    "async-and-lambda": '''
async def coro(x: int):
    def sync_inside(y: int) -> int:
        return y + x
    lam = lambda z: z * 2
    return sync_inside(1), lam(4)
async def agen():
    yield 1
    yield 2
def drive(c):
    try:
        c.send(None)
    except StopIteration as e:
        return e.value
    return "suspended"
import inspect
rec("coro", drive(coro(10)), inspect.iscoroutinefunction(coro), inspect.isasyncgenfunction(agen), type(coro).__name__, hasattr(coro, "__wrapped__"))
sq = lambda v: v * v
mk = lambda: (lambda q=3: q + 1)
rec("lambda", sq(5), mk()(), sq.__name__, hasattr(sq, "__wrapped__"), (lambda *a, **k: (a, k))(1, b=2))
class HasLambda:
    fn = staticmethod(lambda t: t + 1)
    def use(self, items):
        return sorted(items, key=lambda it: -it), [(lambda u: u + i)(1) for i in range(2)]
rec("haslambda", HasLambda.fn(1), HasLambda().use([1, 3, 2]))
def with_default(cb=lambda: "dflt"):
    return cb()
rec("dflt", with_default(), with_default(lambda: "given"))
''',
    "generators": '''
def gen(n: int):
    for i in range(n):
        got = yield i
        if got:
            rec("sent", got)
    return "done"
def deleg(n: int):
    r = yield from gen(n)
    yield r
g = gen(3)
rec("gen", next(g), g.send("hello"), list(g), list(deleg(2)))
def squares(n: int):
    return [i * i for i in range(n)], {i: i for i in range(n)}, {i for i in range(n)}, list(i for i in range(n))
rec("comp", squares(3))
''',
    "tracebacks": '''
import traceback
def boom(x: int):
    y = x + 1
    raise ValueError("boom %d" % y)
def via(x: int):
    z = x * 2

    return boom(z)
class K:
    def meth(self, v: int):
        return via(v)
def lines(e):
    return [(fr.lineno, fr.name) for fr in traceback.extract_tb(e.__traceback__) if fr.filename == __file__]
try:
    K().meth(3)
except ValueError as e:
    rec("tb", str(e), lines(e))
def divide(a: int, b: int):
    return (a /
            b)
try:
    divide(1, 0)
except ZeroDivisionError as e:
    rec("tb2", lines(e))
rec("firstline", boom.__code__.co_firstlineno if not hasattr(boom, "__wrapped__") else boom.__wrapped__.__code__.co_firstlineno)
''',
    "signatures": '''
def effects(label):
    rec("default-eval", label)
    return label
def sig(a, b=effects("b"), /, c=effects("c"), *args, d, e=effects("e"), **kw):
    return (a, b, c, args, d, e, sorted(kw.items()))
rec("sig", sig(1, d=4), sig(1, 2, 3, 4, 5, d=6, e=7, z=8))
def kwonly(*, k: int = 1) -> int:
    return k
def star(*a: int, **k: str):
    return len(a), sorted(k)
rec("kw", kwonly(), kwonly(k=3), star(1, 2, x="s"))
try:
    kwonly(1)
except TypeError as e:
    rec("kw-err", type(e).__name__)
''',
    "globals-redefinition": '''
counter = 0
def bump(by: int = 1):
    global counter
    counter += by
    return counter
bump(); bump(5)
def twice():
    return "first"
first = twice
def twice():
    return "second"
rec("glob", counter, first(), twice(), first is twice)
def maker():
    def made(): return "made"
    return made
rec("maker", maker()(), maker().__qualname__)
x = [1, 2, 3]
def mutate(lst: list) -> None:
    lst.append(4)
mutate(x)
rec("mut", x)
''',
    "inheritance": '''
class Base:
    registry = []
    def __init_subclass__(cls, **kw):
        super().__init_subclass__(**kw)
        Base.registry.append(cls.__name__)
    def __init__(self, v: int):
        self.v = v
    def hello(self) -> str:
        return "base%d" % self.v
class Child(Base):
    def __init__(self, v: int, w: int):
        super().__init__(v)
        self.__w = w
    def hello(self) -> str:
        return "child+" + super().hello() + str(self.__w) + __class__.__name__
    def __secret(self):
        return "s"
    def reveal(self):
        return self.__secret()
class Meta(type):
    def __new__(mcls, name, bases, ns):
        ns["made_by"] = "meta"
        return super().__new__(mcls, name, bases, ns)
    def __call__(cls, *a):
        inst = super().__call__(*a)
        inst.called = True
        return inst
class WithMeta(metaclass=Meta):
    def __init__(self, q=0):
        self.q = q
wm = WithMeta(3)
rec("inh", Child(1, 2).hello(), Child(1, 2).reveal(), Base.registry, isinstance(Child(1, 2), Base), Child.__mro__[1].__name__, wm.q, wm.called, WithMeta.made_by)
import enum
class Color(enum.Enum):
    RED = 1
    GREEN = 2
    def nice(self):
        return self.name.lower()
rec("enum", Color.RED.nice(), [c.value for c in Color], Color(2).name)
''',
    "typing-constructs": '''
import typing, functools, abc
class Shape(abc.ABC):
    @abc.abstractmethod
    def area(self) -> float: ...
    @functools.cached_property
    def twice(self):
        return 2 * self.area()
class Sq(Shape):
    def __init__(self, s: float):
        self.s = s
    def area(self) -> float:
        return self.s * self.s
try:
    Shape()
except TypeError:
    rec("abstract-ok")
rec("sq", Sq(2.0).area(), Sq(3.0).twice)
@functools.lru_cache(maxsize=None)
def fib(n: int) -> int:
    return n if n < 2 else fib(n - 1) + fib(n - 2)
rec("fib", fib(15), fib.cache_info().misses)
@functools.wraps(fib)
def wrapped_fib(*a):
    return fib(*a)
rec("wrapped", wrapped_fib(5), wrapped_fib.__name__)
class NT(typing.NamedTuple):
    a: int
    b: str = "b"
    def both(self):
        return (self.a, self.b)
rec("nt", NT(1).both(), NT(1)._asdict())
T = typing.TypeVar("T")
class Box(typing.Generic[T]):
    def __init__(self, item: T):
        self.item = item
    def get(self) -> T:
        return self.item
rec("box", Box[int](3).get(), Box("s").get())
class Proto(typing.Protocol):
    def run(self) -> int: ...
class Impl:
    def run(self) -> int:
        return 1
def use(p: Proto) -> int:
    return p.run()
rec("proto", use(Impl()))
''',
    "one-liners": '''
def a(): return 1
def b(): return 2; x = 3
class C: pass
class D: x = 1; y = 2
class E:
    def f(self): return "f"
if True:
	def tabbed():
		return "tab"
rec("one", a(), b(), C.__name__, D.y, E().f(), tabbed())
def multi(
    p: int,
    q: int = (
        1 +
        2
    ),
) -> int:
    return (p
            + q)
rec("multi", multi(1))
''',
    "decorated-class-stack": '''
order = []
def mark(tag):
    def d(obj):
        order.append((tag, getattr(obj, "__name__", type(obj).__name__)))
        return obj
    return d
@mark("c1")
@mark("c2")
class Stack:
    @mark("m1")
    @mark("m2")
    def method(self):
        return "m"
    @mark("sm-outer")
    @staticmethod
    @mark("sm-inner")
    def sm():
        return "sm"
rec("order", order, Stack().method(), Stack.sm())
''',
}

FRAGMENTS.update({
    "dispatch-contextmanager-pickle": '''
import functools, contextlib, pickle
@functools.singledispatch
def show(x):
    return "obj"
@show.register
def _(x: int):
    return "int"
@show.register(str)
def _(x):
    return "str"
rec("dispatch", show(1), show("s"), show(2.0), sorted(t.__name__ for t in show.registry))
@contextlib.contextmanager
def managed(tag: str):
    rec("enter", tag)
    try:
        yield tag.upper()
    finally:
        rec("exit", tag)
with managed("cm") as v:
    rec("body", v)
try:
    with managed("err"):
        raise KeyError("inside")
except KeyError:
    rec("propagated")
def top_level(x: int) -> int:
    return x + 1
rec("pickle", pickle.loads(pickle.dumps(top_level))(1), pickle.loads(pickle.dumps(top_level)) is top_level)
class Pk:
    def __init__(self, v: int):
        self.v = v
    def __eq__(self, o):
        return isinstance(o, Pk) and o.v == self.v
    def __reduce__(self):
        return (Pk, (self.v,))
rec("pickle-obj", pickle.loads(pickle.dumps(Pk(3))) == Pk(3))
''',
    "dunder-protocols": '''
class Vec:
    __slots__ = ("xs",)
    def __init__(self, *xs: int):
        self.xs = list(xs)
    def __add__(self, o: "Vec") -> "Vec":
        return Vec(*[a + b for a, b in zip(self.xs, o.xs)])
    def __radd__(self, o):
        return self if o == 0 else NotImplemented
    def __getitem__(self, i: int) -> int:
        return self.xs[i]
    def __setitem__(self, i: int, v: int) -> None:
        self.xs[i] = v
    def __len__(self) -> int:
        return len(self.xs)
    def __iter__(self):
        return iter(self.xs)
    def __contains__(self, v) -> bool:
        return v in self.xs
    def __call__(self, k: int) -> int:
        return sum(self.xs) * k
    def __bool__(self) -> bool:
        return bool(self.xs)
    def __eq__(self, o) -> bool:
        return isinstance(o, Vec) and o.xs == self.xs
    def __hash__(self) -> int:
        return hash(tuple(self.xs))
    def __repr__(self) -> str:
        return "Vec%r" % (tuple(self.xs),)
    def __enter__(self):
        rec("vec-enter")
        return self
    def __exit__(self, *exc):
        rec("vec-exit", exc[0] is None)
        return False
    def __getattr__(self, name: str):
        if name.startswith("dyn_"):
            return name[4:]
        raise AttributeError(name)
v = Vec(1, 2) + Vec(3, 4)
v[0] = 10
with v as w:
    pass
rec("vec", repr(v), v[1], len(v), list(v), 6 in v, v(2), bool(Vec()), v == Vec(10, 6), {v: 1}[Vec(10, 6)], sum([Vec(1), Vec(2)]).xs, v.dyn_abc, hasattr(v, "nope"))
class Desc:
    def __set_name__(self, owner, name):
        self.name = name
    def __get__(self, inst, owner=None):
        return ("desc", self.name, inst is None)
    def __set__(self, inst, value):
        rec("desc-set", value)
class Owner:
    d = Desc()
    def method(self):
        return "meth"
    alias = method
Owner().d = 5
rec("desc", Owner.d, Owner().d, Owner().alias(), Owner.alias is Owner.method)
class Counter:
    count = 0
    def __new__(cls, *a):
        cls.count += 1
        return super().__new__(cls)
    def __init__(self, tag: str = "t"):
        self.tag = tag
    def __class_getitem__(cls, item):
        return (cls.__name__, item)
    def __del__(self):
        pass
rec("new", Counter("x").tag, Counter().tag, Counter.count, Counter[int])
''',
})

SPECIALS = {
    "empty": "",
    "blank-and-comment": "\n\n# only a comment\n\n",
    "docstring-only": '"""Only a docstring."""\n',
    "futures-only": "from __future__ import annotations\nfrom __future__ import division\n",
    "doc+futures-only": '"""d"""\nfrom __future__ import annotations\n',
    "pass-only": "pass\n",
    "constants-only": "'doc'\n1\n2.5\nNone\n...\n",
    "async-only": "async def c():\n    return 1\n",
    "lambda-only": "f = lambda x: x\n",
    "def-first-line": "def f(): return 1\n",
    "class-first-line": "class C: pass\n",
    "doc-then-def": '"""doc"""\ndef f(x: int):\n    """fdoc"""\n    return x\n',
    # no def / class at the TOP level: every definition sits inside a module-level compound statement
    "defs-only-in-try": "try:\n    import nonexistent_mod_xyz\nexcept ImportError:\n    def shim(x: int) -> int:\n        return x\n    class Shim:\n        def m(self, y: int):\n            return y\n",
    "defs-only-in-if": "import sys\nif sys.version_info >= (3, 0):\n    def newer(x: int):\n        return x\nelse:\n    def newer(x):\n        return x\n",
    "defs-only-in-with-for": "import contextlib\nwith contextlib.nullcontext():\n    def inside(x: int):\n        return x\nfor _i in range(2):\n    class Loop:\n        def m(self):\n            return _i\n",
}


def gen_modules(tier, rng):
    mods = []  # (id, source, has_trace)
    for k, v in SPECIALS.items():
        mods.append(("gen:special:" + k, v, False))
    frags = list(FRAGMENTS)
    if tier == "quick":
        for i, f in enumerate(frags):
            for j in range(3):
                h = QUICK_HEADERS[(3 * i + j) % len(QUICK_HEADERS)]
                mods.append((f"gen:{h}|{f}", HEADERS[h] + PRELUDE + FRAGMENTS[f], True))
    else:
        for h in HEADERS:
            for f in frags:
                mods.append((f"gen:{h}|{f}", HEADERS[h] + PRELUDE + FRAGMENTS[f], True))
        # seeded combinations of several fragments in one module (shared prelude); names may be redefined, which is fine
        for n in range(60):
            h = rng.choice(sorted(HEADERS))
            fs = rng.sample(frags, rng.choice([2, 3, 4]))
            mods.append((f"gen:{h}|" + "+".join(fs), HEADERS[h] + PRELUDE + "".join(FRAGMENTS[f] for f in fs), True))
    return mods


def run_module(code, filename):
    mod = types.ModuleType("genmod")
    mod.__file__ = filename
    ns = mod.__dict__
    saved = sys.modules.get("genmod")
    sys.modules["genmod"] = mod  # dataclasses / typing look the defining module up by name
    err = None
    try:
        exec(code, ns)
    except BaseException as e:  # noqa
        err = f"{type(e).__name__}: {e}"[:300]
    finally:
        if saved is None:
            sys.modules.pop("genmod", None)
        else:
            sys.modules["genmod"] = saved
    keys = sorted(k for k in ns if k not in ("jaxtyping", "__builtins__"))
    return {"error": err, "trace": repr(ns.get("TRACE")), "doc": ns.get("__doc__"), "names": keys}


def semantic_check(src, filename):
    """exec plain vs transformed(Typechecker(None)); returns list of (clause, expected, actual)."""
    out = []
    plain = run_module(compile(src, filename, "exec", dont_inherit=True), filename)
    try:
        tree = transform_real(ast.parse(src, filename), None)
        code = compile(tree, filename, "exec", dont_inherit=True)
    except BaseException as e:  # noqa
        return [("behaves-like-plain", "transform+compile succeed", f"{type(e).__name__}: {e}"[:300])], plain
    hooked = run_module(code, filename)
    for k in ("error", "trace", "doc", "names"):
        if plain[k] != hooked[k]:
            out.append(("behaves-like-plain:" + k, plain[k], hooked[k]))
    return out, plain


# ----------------------------------------------------------------------------------------------------
# corpus
# ----------------------------------------------------------------------------------------------------
def list_py(root, exclude_site=True):
    out = []
    for dp, dn, fn in os.walk(root):
        dn.sort()
        if exclude_site:
            dn[:] = [d for d in dn if d not in ("site-packages", "dist-packages")]
        dn[:] = [d for d in dn if d != "__pycache__"]
        for f in sorted(fn):
            if f.endswith(".py"):
                out.append(os.path.join(dp, f))
    return out


def corpus_worker(job):
    cid, path = job
    try:
        with open(path, "rb") as fh:
            src = fh.read()
    except OSError as e:
        return cid, path, {"skip": "unreadable: " + type(e).__name__}
    old = sys.getrecursionlimit()
    try:
        return cid, path, static_check(src, path)
    except RecursionError:
        return cid, path, {"skip": "harness recursion limit (very deep AST)"}
    finally:
        sys.setrecursionlimit(old)


def snippet_for_file(path, checker="typeguard.typechecked"):
    return ("import ast, jaxtyping._import_hook as h\n"
            f"src = open({path!r}, 'rb').read(); t = ast.parse(src)\n"
            f"t = h.JaxtypingTransformer(typechecker=h.Typechecker({checker!r})).visit(t); ast.fix_missing_locations(t)\n"
            "print(ast.dump(t, include_attributes=True, indent=1)[:3000]); compile(t, 'x', 'exec', dont_inherit=True)")


def snippet_for_src(src, checker):
    return ("import ast, jaxtyping._import_hook as h\n"
            f"src = {src!r}\n"
            f"t = h.JaxtypingTransformer(typechecker=h.Typechecker({checker!r})).visit(ast.parse(src)); ast.fix_missing_locations(t)\n"
            "ns = {'__name__': 'genmod', '__file__': '<gen>'}; exec(compile(t, '<gen>', 'exec', dont_inherit=True), ns); print(ns.get('TRACE'))\n"
            "ns2 = {'__name__': 'genmod', '__file__': '<gen>'}; exec(compile(src, '<gen>', 'exec', dont_inherit=True), ns2); print(ns2.get('TRACE'))")


# ----------------------------------------------------------------------------------------------------
# IPython path (worker mode, separate process)
# ----------------------------------------------------------------------------------------------------
IPY_CELLS = ["plain", "deco-stack", "class-members", "nesting", "async-and-lambda"]


def ipython_worker():
    res = {"problems": [], "evals": 0}
    P = res["problems"]
    from IPython.core.interactiveshell import InteractiveShell
    from jaxtyping._import_hook import JaxtypingTransformer
    shell = InteractiveShell.instance()
    shell.run_line_magic("load_ext", "jaxtyping")
    before = [t for t in shell.ast_transformers if isinstance(t, JaxtypingTransformer)]
    if before:
        P.append(("ipython:load_ext", "magic-installs-transformer", "no transformer before a checker is chosen", f"{len(before)} present after load_ext only"))
    for checker, kind in (("typeguard.typechecked", "typeguard"), ("beartype.beartype", "beartype")):
        shell.run_line_magic("jaxtyping.typechecker", checker)
        inst = [t for t in shell.ast_transformers if isinstance(t, JaxtypingTransformer)]
        res["evals"] += 1
        if len(inst) != 1:
            P.append((f"ipython:magic:{checker}", "magic-installs-transformer", "exactly one JaxtypingTransformer in shell.ast_transformers", f"{len(inst)}"))
            continue
        for f in IPY_CELLS:
            src = PRELUDE + FRAGMENTS[f]
            info = static_check(src, f"<cell {f}>", checker=checker, transform=lambda t: shell.transform_ast(t))
            res["evals"] += 1
            for clause, det in info.get("problems", []):
                P.append((f"ipython:cell:{f}", clause, "cell AST changed only by the three additions", det))
    # history: the extension is re-loaded between two choices -- still exactly ONE transformer, the one chosen last (C11: cells are checked
    # by the checker given to the magic that is in force, not by a stale one as well)
    for verb in ("reload_ext", "load_ext"):
        shell.run_line_magic("jaxtyping.typechecker", "typeguard.typechecked")
        shell.run_line_magic(verb, "jaxtyping")
        shell.run_line_magic("jaxtyping.typechecker", "beartype.beartype")
        inst = [t for t in shell.ast_transformers if isinstance(t, JaxtypingTransformer)]
        res["evals"] += 1
        if len(inst) != 1:
            P.append((f"ipython:history:choose-{verb}-choose", "magic-installs-transformer", "exactly one JaxtypingTransformer after choosing, re-loading the extension and choosing again", f"{len(inst)}"))
    # behaviour through run_cell with the last chosen checker (beartype)
    r = shell.run_cell("def _c10_f(x: int):\n    return x\n_c10_ok = _c10_f(1)\ntry:\n    _c10_f('s'); _c10_bad = 'no error'\nexcept Exception as e:\n    _c10_bad = type(e).__name__\n", store_history=False, silent=True)
    res["evals"] += 1
    got = (shell.user_ns.get("_c10_ok"), shell.user_ns.get("_c10_bad"), r.success)
    if got != (1, "TypeCheckError", True):
        P.append(("ipython:run_cell", "cell-functions-checked", [1, "TypeCheckError", True], list(got)))
    return res


# ----------------------------------------------------------------------------------------------------
def main():
    if "--ipython-worker" in sys.argv:
        a = _common.setup()
        devnull = open(os.devnull, "w")
        real_out = sys.stdout
        sys.stdout = devnull
        try:
            res = ipython_worker()
        finally:
            sys.stdout = real_out
        print("IPYRESULT " + json.dumps(res, default=repr))
        return

    a = _common.setup("C10 transformer differential")
    rng = random.Random(a.seed)
    T = _common.Tally()
    stdlib = sysconfig.get_paths()["stdlib"]
    site = "/venv/lib/python3.12/site-packages" if os.path.isdir("/venv/lib/python3.12/site-packages") else None
    std_files = list_py(stdlib)
    jobs = []
    if a.tier == "quick":
        pick = rng.sample(std_files, min(150, len(std_files)))
        jobs = [("stdlib:" + os.path.relpath(p, stdlib), p) for p in sorted(pick)]
        nsite = 0
    else:
        jobs = [("stdlib:" + os.path.relpath(p, stdlib), p) for p in std_files]
        sp = list_py(site, exclude_site=False) if site else []
        pick = rng.sample(sp, min(1500, len(sp)))
        nsite = len(pick)
        jobs += [("site-packages:" + os.path.relpath(p, site), p) for p in sorted(pick)]

    # start the IPython worker early, in parallel
    ipydir = tempfile.mkdtemp(prefix="b10_ipy_")  # IPython profile/history go here, not to ~/.ipython
    ipy = subprocess.Popen([sys.executable, os.path.abspath(__file__), "--ipython-worker", "--repo", a.repo],
                           stdout=subprocess.PIPE, stderr=subprocess.PIPE, text=True, cwd=ipydir,
                           env={**os.environ, "PYTHONPATH": a.repo + os.pathsep + os.environ.get("PYTHONPATH", ""), "PYTHONDONTWRITEBYTECODE": "1", "IPYTHONDIR": ipydir})

    import multiprocessing as mp
    nproc = 4 if a.tier == "quick" else 6
    skipped = 0
    tot = {"ndefs": 0, "nclasses": 0, "nasync": 0, "nlambda": 0}
    with mp.get_context("fork").Pool(nproc) as pool:
        for cid, path, info in pool.imap(corpus_worker, jobs, chunksize=8):
            if "skip" in info:
                skipped += 1
                continue
            for k in tot:
                tot[k] += info[k]
            nontriv = info["ndefs"] + info["nclasses"] > 0
            T.case(cid, nontrivial=nontriv, sample=(f"{cid}: {info['ndefs']} defs, {info['nclasses']} classes, {info['nasync']} async defs, {info['nlambda']} lambdas" if nontriv and len(T.samples) < 2 else None))
            seen = set()
            for clause, det in info["problems"]:
                if clause in seen:
                    continue
                seen.add(clause)
                T.fail(f"corpus-file:{clause}:{cid}", clause, input=path, expected="only the three permitted additions; compiles; flags/docstring/line numbers kept", actual=det,
                       snippet=snippet_for_file(path))

    # generated modules: static check under all three checkers' decorator expressions + semantics
    mods = gen_modules(a.tier, rng)
    ngen = 0
    for mid, src, has_trace in mods:
        fname = "<" + mid + ">"
        for checker in ("typeguard.typechecked", None) if a.tier == "quick" else ("typeguard.typechecked", "beartype.beartype", None):
            info = static_check(src, fname, checker=checker)
            if "skip" in info:
                raise RuntimeError(f"generated module {mid} does not compile: {info}")
            if info["binds_jaxtyping"]:
                raise RuntimeError(f"generated module {mid} binds the name jaxtyping (excluded from the bound)")
            T.case(f"{mid}@{checker}", nontrivial=True, sample=(f"{mid}@{checker}: static strip-equality" if ngen == 20 else None))
            ngen += 1
            seen = set()
            for clause, det in info["problems"]:
                if clause in seen:
                    continue
                seen.add(clause)
                T.fail(f"{mid}:{clause}", clause, input=src, expected="only the three permitted additions; compiles; flags/docstring/line numbers kept", actual=det,
                       snippet=snippet_for_src(src, checker))
        sem, plain = semantic_check(src, fname)
        if has_trace and (plain["error"] is not None or plain["trace"] in ("None", "[]")):
            raise RuntimeError(f"generated module {mid} is broken as a PLAIN module: {plain['error']} {plain['trace'][:100]}")
        T.case(f"{mid}@exec", nontrivial=True, sample=(f"{mid}: exec plain vs hooked(None) trace, {len(plain['trace'])} chars" if has_trace and len(T.samples) < 4 else None))
        for clause, exp, act in sem:
            T.fail(f"{mid}:{clause}", clause, input=src, expected=exp, actual=act, snippet=snippet_for_src(src, None))

    # IPython
    try:
        out, err = ipy.communicate(timeout=120)
    except subprocess.TimeoutExpired:
        ipy.kill()
        out, err = ipy.communicate()
    shutil.rmtree(ipydir, ignore_errors=True)
    line = next((ln for ln in out.splitlines() if ln.startswith("IPYRESULT ")), None)
    ipy_note = ""
    if line is None:
        # the harness could not drive IPython at all: not a verdict about jaxtyping unless the extension itself raised
        tail = (err or "").strip().splitlines()[-3:]
        if any("jaxtyping" in t for t in tail):
            T.case("ipython:load", True)
            T.fail("ipython:load", "magic-installs-transformer", input="%load_ext jaxtyping", expected="loads", actual=" | ".join(tail),
                   snippet="from IPython.core.interactiveshell import InteractiveShell as S; s = S.instance(); s.run_line_magic('load_ext', 'jaxtyping')")
        ipy_note = " (IPython worker gave no result: " + " | ".join(tail)[:200] + ")"
    else:
        res = json.loads(line[len("IPYRESULT "):])
        for i in range(res["evals"]):
            T.case(f"ipython:{i}", True, sample=("ipython: %load_ext jaxtyping; %jaxtyping.typechecker X; shell.transform_ast(cell)" if i == 0 else None))
        for cid, clause, exp, act in res["problems"]:
            T.fail(cid + ":" + clause, clause, input=cid, expected=exp, actual=act,
                   snippet="from IPython.core.interactiveshell import InteractiveShell as S; import ast\ns = S.instance(); s.run_line_magic('load_ext', 'jaxtyping'); s.run_line_magic('jaxtyping.typechecker', 'typeguard.typechecked')\nprint(s.ast_transformers); print(ast.dump(s.transform_ast(ast.parse('@d\\ndef f(): pass')), indent=1))")

    ncorp = len(jobs) - skipped
    bound = (f"{a.tier}: {ncorp} compilable .py files ({'seeded sample of 150' if a.tier == 'quick' else 'ALL ' + str(len(std_files))} of stdlib {stdlib}"
             + (f" + seeded sample of {nsite} from {site}" if nsite else "") + f"; {skipped} skipped because the ORIGINAL does not compile/read) containing "
             f"{tot['ndefs']} sync defs, {tot['nclasses']} classes, {tot['nasync']} async defs, {tot['nlambda']} lambdas; "
             f"{len(mods)} generated modules ({len(SPECIALS)} degenerate modules; {len(HEADERS) if a.tier != 'quick' else len(QUICK_HEADERS)} docstring/__future__/leading-constant headers x {len(FRAGMENTS)} body fragments"
             + ("" if a.tier == "quick" else " + 60 seeded multi-fragment modules") + "), each checked statically under "
             + ("2" if a.tier == "quick" else "3") + " typechecker settings and exec'd plain vs hooked(typechecker=None); IPython: load_ext + magic with 2 checkers, 5 cells through shell.transform_ast, 1 run_cell"
             + ipy_note + ". Excluded: modules that themselves bind the name `jaxtyping` (name capture is outside the statement), co_firstlineno of class bodies, behaviour that inspects wrapper identity or the call stack (__defaults__/__code__ of the wrapper, sys._getframe/stacklevel, recursion depth).")
    rule = ("corpus file = one case (non-trivial iff it has >=1 sync def or class); transformer run on ast.parse(src) with Typechecker('typeguard.typechecked'); own strip() removes the last decorator of every FunctionDef and the "
            "first of every ClassDef (each must be jaxtyping.jaxtyped(typechecker=E) with E evaluating to a decorator that behaves like the requested checker) and one `import jaxtyping` whose index lies between the end of the "
            "docstring/__future__ run and the first statement containing a def/class; remaining ast.dump(include_attributes=True) must equal the pristine parse; if the module has no def/class a missing import is accepted "
            "(statement silent); compile() must succeed with identical co_flags, docstring stored, and every nested leaf code object byte-identical incl. line table, inner function code objects keep qualname+co_firstlineno. "
            "generated module = header x fragment, distinct by id; semantics: TRACE list, module __doc__, global names (minus `jaxtyping`), import-time error must be identical.")
    _common.emit(T, bound=bound, rule=rule, exhaustive=False, tier=a.tier, seed=a.seed, wall_s=round(time.time() - a.t0, 1))


if __name__ == "__main__":
    main()
