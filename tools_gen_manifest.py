"""Regenerates MANIFEST.json from pyvc/props/*.py (MANIFEST_ENTRY in each) -- run by hand, output committed."""
import importlib, json, os, sys
sys.path.insert(0, os.path.dirname(os.path.abspath(__file__)))
props = [json.loads(l) for l in open("properties.jsonl")]
checks, na = [], []
for p in props:
    pid = p["id"]
    from pyvc.props import table
    try:
        e = table.manifest_entry(pid)
    except KeyError:
        na.append({"property_id": pid, "reason": "check not built yet in this round (planned: DESIGN.md section 5); not claimed"})
        continue
    if e.get("not_applicable"):
        na.append({"property_id": pid, "reason": e["not_applicable"]}); continue
    checks.append({
        "property_id": pid,
        "quick_cmd": f"./check {pid} --tier quick",
        "thorough_cmd": f"./check {pid} --tier thorough",
        "evidence_file": f"/verif/evidence/{pid}.json",
        "replay_cmd_template": f"./check {pid} --replay {{path}}",
        "engine": "pyvc",
        "level_claimed": {"category": e["category"], "text": e["text"], "design_ref": e.get("design_ref", f"DESIGN.md section 5/{pid}")},
        "level_note": e["level_note"],
        "technique": e["technique"],
    })
man = {
    "version": 1,
    "setup_cmd": "python3-vt -c \"import z3, sys; sys.path.insert(0, '/verif'); import pyvc.cli; print('pyvc ready, z3', z3.get_version_string())\"",
    "hooks": {"guard": "JAXTYPING_VERIF", "enable": "no hooks: contracts are sidecar files in /verif/pyvc/units; the repository source is read as text on every run", "baseline_off_cmd": "cd /repo && /venv/bin/python -m pytest -ra -q -p no:cacheprovider --timeout=900 --continue-on-collection-errors", "source_commits": [], "add_only": True},
    "engines": [{"name": "pyvc", "path": "/verif/pyvc", "serves_properties": [c["property_id"] for c in checks], "kind_free_text": "contract-based deductive verification: own AST->VC generator (symbolic executor over the real source, sidecar contracts, loop invariants, callee-by-contract) discharged by z3/cvc5; bounded differential stand-ins for assumed dependency contracts"}],
    "checks": checks,
    "not_applicable": na,
    "notes": "exit 0 held / 1 VIOLATION / 2 undecided (unsupported syntax, solver unknown) / 3 checker defect. Known findings: /verif/known_findings.json.",
}
json.dump(man, open("MANIFEST.json", "w"), indent=1)
print(len(checks), "checks;", len(na), "not applicable")
