"""Unit U1: jaxtyping._array_types._check_dims against the indexed fold of spec.c01.axis_step.

Contract (callers use this, never the body):
  requires  len(cls_dims) == len(obj_shape);  no variadic element in cls_dims
  ensures   result == ""  <=>  FoldV(n) == ACCEPT ;  result != "" => FoldV(n) == REJECT
            result == ""  =>  single_memo' == FoldM(n)
  raises    AnnotationError <=> FoldV(n) == ANNOT ; class c from Eval <=> FoldV(n) == 100+tag(c)
            nothing else (type-safety of every attribute access, both asserts)
  modifies  single_memo only (arg_memo and every other object untouched: checked by handle identity)
Loop 0 invariant at index k:  FoldV(k) == ACCEPT  /\\  single_memo == FoldM(k)
"""
from __future__ import annotations

import ast

import z3

from ..engine import Raised, is_raised
from ..source import Module, NotFound
from ..spec import c01
from ..values import BOOL, INT, NORMAL, STR, U, DictObj, Exc, Opaque, Outcome, Ref, State, Unsupported, Z
from . import arrays_common as AC

NAME = "check_dims"
FUNC = "_check_dims"


def build(repo=None):
    mod = Module("jaxtyping/_array_types.py", repo)
    fn = mod.func(FUNC)
    eng = AC.arrays_engine(mod)
    dt = eng.datatypes["dim"]
    ops = AC.Z3Ops(dt)
    params = [a.arg for a in fn.args.args]
    if len(params) != 4 or fn.args.vararg or fn.args.kwarg or fn.args.kwonlyargs:
        raise Unsupported(f"{FUNC}: unexpected signature {params}")
    p_dims, p_shape, p_memo, p_arg = params

    dims = z3.Const("dims", z3.SeqSort(dt.sort))
    shape = z3.Const("shape", z3.SeqSort(INT))
    n = z3.Length(dims)
    m0 = z3.Const("m0", AC.MEMO_M)
    d0 = z3.Const("d0", AC.MEMO_D)
    k = z3.Int("k")
    Fm = z3.Function("FoldM", INT, AC.MEMO_M)
    Fd = z3.Function("FoldD", INT, AC.MEMO_D)
    Fv = z3.Function("FoldV", INT, INT)

    def unfold(j):
        """F(j+1) from F(j): the definition of the fold, instantiated at index j."""
        v, (m1, d1) = c01.axis_step(ops, dims[j], shape[j], (Fm(j), Fd(j)))
        return [
            Fv(j + 1) == z3.If(Fv(j) != 0, Fv(j), v),
            z3.Implies(z3.And(Fv(j) == 0, v == 0), z3.And(Fm(j + 1) == m1, Fd(j + 1) == d1)),
        ]

    base = [Fv(0) == 0, Fm(0) == m0, Fd(0) == d0]
    pre = [z3.Length(dims) == z3.Length(shape)]
    novar = lambda j: z3.Not(AC.is_variadic(dt, dims[j]))  # requires, instantiated where used

    _t1, _src = ops.eval_fstring(dt.field(dims[k], "_SymbolicDim", "elem"))
    _t2, _v2 = ops.eval_expr(_src, (Fm(k), Fd(k)))
    eval_meta = dict(eval1_tag=_t1, eval2_tag=_t2, eval2_val=_v2)

    st = State()
    memo_ref = st.alloc(DictObj(STR, INT, m0, d0, "single_memo"))
    arg_ref = st.alloc(DictObj(STR, U, tag="arg_memo"))
    arg0 = st.get(arg_ref)
    st.env = {p_dims: Z("seq:dim", dims), p_shape: Z("seq:int", shape), p_memo: memo_ref, p_arg: arg_ref}
    st.pc = pre + base
    obligations = st.obl
    # the axis loop: the one for-loop at the top level of the function body; loops nested inside it (none in the pinned source) are left to
    # the engine's over-approximation of opaque loops (no iteration / one arbitrary iteration, then every name they assign is forgotten)
    loops = [x for x in fn.body if isinstance(x, ast.For)]
    if len(loops) != 1 or any(isinstance(x, ast.While) for x in ast.walk(fn)):
        raise Unsupported(f"{FUNC}: expected exactly one top-level for-loop, found {len(loops)}")
    loop = loops[0]
    if any(isinstance(x, ast.For) and x is not loop for x in ast.walk(fn)):
        eng.approx_opaque_loops = True
    in_loop_exits = []

    def loop_handler(eng, node, s0):
        outs = []
        for s1, it in eng.ev(node.iter, s0):
            if is_raised(it):
                outs.append((s1, Outcome("raise", it.exc)))
                continue
            cols = it.attrs.get("__zip__") if isinstance(it, Opaque) and it.attrs else None
            if cols is None or len(cols.items) != 2:
                raise Unsupported(f"{FUNC}: loop is not `for .. in zip(a, b)`")
            a, b = cols.items
            if not (isinstance(a, Z) and isinstance(b, Z) and a.t.eq(dims) and b.t.eq(shape)):
                raise Unsupported(f"{FUNC}: loop does not iterate over (cls_dims, obj_shape)")
            # invariant holds on entry: memo == F(0), FoldV(0) == 0
            cur = s1.get(memo_ref)
            eng.oblige(s1, "loop0:invariant-on-entry", z3.And(cur.m == Fm(0), cur.d == Fd(0), Fv(0) == 0))
            # arbitrary iteration k
            s2 = s1.clone()
            s2.put(memo_ref, DictObj(STR, INT, Fm(k), Fd(k), "single_memo"))
            s2.pc = s2.pc + [0 <= k, k < n, Fv(k) == 0, novar(k)] + unfold(k)
            s2.path.append("loop0:iter")
            for s3, o in __import__("pyvc.stmts", fromlist=["assign_target"]).assign_target(eng, s2, node.target, __import__("pyvc.values", fromlist=["Tup"]).Tup([Z("dim", dims[k]), Z("int", shape[k])])):
                if o.kind != "normal":
                    raise Unsupported("loop target assignment failed")
                for s4, o4 in eng.run(node.body, s3):
                    mm = s4.get(memo_ref)
                    if o4.kind in ("normal", "continue"):
                        # C16, from the statement itself: "using '?' outside a structured PyTree raises AnnotationError" -- an axis marked '?' may be passed over
                        # only where a leaf label is in force (the fold above mirrors the code; this clause does not)
                        eng.oblige(s4, "C16:a-'?'-axis-is-passed-only-under-a-leaf-label(AnnotationError-outside-a-structured-PyTree)",
                                   z3.Implies(z3.And(dt.is_cls(dims[k], "_NamedDim"), dt.field(dims[k], "_NamedDim", "treepath")), AC.HasLabel),
                                   dim_k=dims[k], size_k=shape[k], has_label=AC.HasLabel)
                        s4.obl[-1]["serves"] = ["C16"]
                        eng.oblige(
                            s4,
                            "loop0:invariant-preserved",
                            z3.And(Fv(k + 1) == 0, mm.m == Fm(k + 1), mm.d == Fd(k + 1)),
                            dim_k=dims[k], size_k=shape[k], has_label=AC.HasLabel, label=AC.Label,
                            key=c01.axis_key(ops, dims[k]), memo_has=Fd(k)[c01.axis_key(ops, dims[k])], memo_val=Fm(k)[c01.axis_key(ops, dims[k])], **eval_meta,
                        )
                    elif o4.kind == "break":
                        raise Unsupported(f"{FUNC}: break in loop")
                    else:
                        # exits the function from inside the loop at index k: sticky lemma gives FoldV(n) == FoldV(k+1)
                        s5 = s4.fork(Fv(n) == Fv(k + 1), "exit-in-loop")
                        outs.append((s5, o4))
            # after the loop: k == n
            s6 = s1.clone()
            s6.put(memo_ref, DictObj(STR, INT, Fm(n), Fd(n), "single_memo"))
            s6.pc = s6.pc + [Fv(n) == 0]
            s6.path.append("loop0:exit")
            outs.append((s6, NORMAL))
        return outs

    eng.loop_specs[id(loop)] = loop_handler
    outcomes = eng.run(fn.body, st)
    eng.stats["paths"] = len(outcomes)

    cls_index = {c: 2 + i for i, c in enumerate(AC.EVAL_OTHER)}
    for s1, o in outcomes:
        mm = s1.get(memo_ref)
        meta = dict(dim_k=dims[k], size_k=shape[k], has_label=AC.HasLabel, label=AC.Label,
                    key=c01.axis_key(ops, dims[k]), memo_has=Fd(k)[c01.axis_key(ops, dims[k])], memo_val=Fm(k)[c01.axis_key(ops, dims[k])], **eval_meta)
        # frame: arg_memo untouched (same handle contents object)
        frame_ok = s1.get(arg_ref) is arg0
        if not frame_ok:
            eng.oblige(s1, "modifies:arg_memo-untouched", z3.BoolVal(False))
        if o.kind == "return":
            v = o.val
            if not (isinstance(v, Z) and v.kind == "str"):
                eng.oblige(s1, "ensures:result-is-str", z3.BoolVal(False))
                continue
            eng.oblige(s1, "ensures:result-empty-iff-fold-accepts", (v.t == z3.StringVal("")) == (Fv(n) == 0), **meta)
            eng.oblige(s1, "ensures:nonempty-result-implies-fold-rejects", z3.Implies(v.t != z3.StringVal(""), Fv(n) == 1), **meta)
            eng.oblige(s1, "ensures:accept-implies-memo-is-fold-memo", z3.Implies(v.t == z3.StringVal(""), z3.And(mm.m == Fm(n), mm.d == Fd(n))), **meta)
        elif o.kind == "raise":
            e = o.val
            if e.origin == "eval" and e.cls in cls_index:
                eng.oblige(s1, "raises:eval-exception-propagates-as-fold-says", Fv(n) == 100 + cls_index[e.cls], exc=z3.StringVal(e.cls), **meta)
            elif e.cls == "AnnotationError":
                eng.oblige(s1, "raises:AnnotationError-iff-fold-says-so", Fv(n) == c01.ANNOT, **meta)
            else:
                eng.oblige(s1, f"raises:no-other-exception[{e.cls} from {e.origin}]", z3.BoolVal(False), **meta)
        elif o.kind == "normal":
            eng.oblige(s1, "ensures:function-returns-a-value", z3.BoolVal(False))
        else:
            raise Unsupported(f"outcome {o.kind}")

    # the sticky lemma used above: once the fold verdict is non-accept it stays (step case; induction is T6)
    j = z3.Int("j")
    lem = State()
    lem.pc = [0 <= j, j < n] + unfold(j)
    obligations.append({"clause": "lemma:fold-verdict-sticky(step)", "pc": lem.pc, "goal": z3.Implies(Fv(j) != 0, Fv(j + 1) == Fv(j)), "path": [], "meta": {}})
    # vacuity canary: the assumptions of the loop body are satisfiable
    obligations.append({"clause": "canary:loop-assumptions-satisfiable", "kind": "canary", "pc": pre + base + [0 <= k, k < n, Fv(k) == 0, novar(k)] + unfold(k), "goal": z3.BoolVal(False), "path": [], "meta": {}})

    out = []
    for ob in obligations:
        ob = dict(ob)
        ob.setdefault("kind", "vc")
        ob["unit"] = NAME
        ob["function"] = FUNC
        out.append(ob)
    return {
        "unit": NAME,
        "functions": [{"qualname": f"jaxtyping._array_types.{FUNC}", "sha256_16": mod.sha(fn), "lines": [fn.lineno, fn.end_lineno]}],
        "obligations": out,
        "paths": len(outcomes),
        "stats": dict(eng.stats),
        "assumptions": [
            "eval(): deterministic in (source string, scope contents); outcome partitioned into value / NameError / other classes (EvalTag/EvalVal uninterpreted); the value of a symbolic axis expression is an int",
            "get_treepath_memo(): contract proved in unit storage (returns the label or raises AnnotationError iff none)",
            "induction over the loop index composes invariant base/step and the sticky lemma (meta-step T6)",
        ],
    }
