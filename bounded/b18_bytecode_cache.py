"""b18_bytecode_cache -- bounded stand-in for C18.

C18: whatever sequence of runs came before (with/without the hook, different typecheckers, different module
lists, source edits in between), a module loaded NOW executes the code that its current source and the current
hook configuration call for; bytecode cached by an earlier run is never reused for a module whose
instrumentation status or typechecker differs from that of the run which wrote it.

A *history* is 2..4 runs over ONE temp source dir (a.py, b.py and their __pycache__); every run is a fresh
subprocess with bytecode writing enabled for that directory.  The oracle is memoryless by construction: it
looks only at the current run's configuration and the current source text.
"""
import json
import os
import random
import shutil
import subprocess
import sys
import tempfile
import time
from concurrent.futures import ThreadPoolExecutor

sys.path.insert(0, os.path.dirname(os.path.abspath(__file__)))
import _common  # noqa: E402

TG, BT = "typeguard.typechecked", "beartype.beartype"
KIND = {TG: "typeguard", BT: "beartype", None: "nocheck"}
CK_SHORT = {TG: "typeguard", BT: "beartype", None: "None", "nohook": "nohook"}

A_SRC = {
    "module": "import b\nCONST = 1\ndef f(x: int):\n    return x\n",
    "function": "CONST = 1\ndef f(x: int):\n    return x\ndef load_b():\n    import b\n    return b\n",
    "func-at-import": "CONST = 1\ndef f(x: int):\n    return x\ndef load_b():\n    import b\n    return b\nload_b()\n",
    "none": "CONST = 1\ndef f(x: int):\n    return x\n",
}


def b_src(version, pad=None):
    # every version has a different constant; ordinary edits also change the file size (pad = version); a "same-size" replacement keeps the pad
    return "CONST = " + str(100 + version) + "  #" + "e" * (version if pad is None else pad) + "\ndef f(x: int):\n    return x\n"


CHILD = r'''
import sys, json, os, importlib
assert sys.dont_write_bytecode, "child must start with -B: third-party/jaxtyping imports must not write bytecode"
cfg = json.loads(sys.stdin.read())
src = cfg["src"]
sys.path.insert(0, src)
import jaxtyping
ck = cfg["checker"]
# warm up everything the instrumented code may import lazily, while bytecode writing is still disabled
if ck != "nohook":
    if ck is None:
        _tc = lambda fn: fn
    else:
        modname, attr = ck.split(".")
        _tc = getattr(importlib.import_module(modname), attr)
    @jaxtyping.jaxtyped(typechecker=_tc)
    def _warm(x: int):
        return x
    _warm(1)
    try:
        _warm("s")
    except Exception:
        pass
before = set(sys.modules)
sys.dont_write_bytecode = bool(cfg.get("nowrite"))  # "nowrite" runs behave like `python -B`: the cache is still READ
log = []
hook = None
try:
    if ck != "nohook":
        hook = jaxtyping.install_import_hook(cfg["hooked"], ck)
    for name in cfg["order"]:
        try:
            importlib.import_module(name)
        except BaseException as e:
            log.append(["import-error", name, type(e).__name__ + ": " + str(e)[:200]])
    if cfg["link"] == "function" and "a" in sys.modules and hasattr(sys.modules["a"], "load_b"):
        try:
            sys.modules["a"].load_b()
        except BaseException as e:
            log.append(["import-error", "b via a.load_b()", type(e).__name__ + ": " + str(e)[:200]])
finally:
    sys.dont_write_bytecode = True
late = sorted(k for k in sys.modules if k not in before and k not in ("a", "b"))
if hook is not None:
    hook.uninstall()

def _signals(e):
    sig, seen = set(), []
    while e is not None and id(e) not in seen:
        seen.append(id(e))
        if (type(e).__module__ or "").split(".")[0] == "beartype":
            sig.add("beartype")
        tb = e.__traceback__
        while tb is not None:
            top = (tb.tb_frame.f_globals.get("__name__") or "").split(".")[0]
            if top in ("typeguard", "beartype"):
                sig.add(top)
            tb = tb.tb_next
        e = e.__cause__ if e.__cause__ is not None else e.__context__
    return sorted(sig)

def classify(m):
    fn = m.f
    has_jt = "jaxtyping" in vars(m)
    try:
        if fn(3) != 3:
            return "weird:f(3) != 3"
    except BaseException as e:
        return "weird:f(3) raised " + type(e).__name__
    try:
        fn("s")
    except BaseException as e:
        if type(e).__name__ != "TypeCheckError":
            return "weird:raised " + type(e).__name__
        s = _signals(e)
        return s[0] if len(s) == 1 else "weird:signals %r" % (s,)
    if hasattr(fn, "__wrapped__") and has_jt:
        return "nocheck"
    if hasattr(fn, "__wrapped__") or has_jt:
        return "weird:half-instrumented wrapped=%r jaxtyping-global=%r" % (hasattr(fn, "__wrapped__"), has_jt)
    return "plain"

state = {}
for name in ("a", "b"):
    if name in sys.modules:
        m = sys.modules[name]
        try:
            state[name] = {"kind": classify(m), "const": getattr(m, "CONST", "missing")}
        except BaseException as e:
            state[name] = {"kind": "weird:probe failed " + type(e).__name__, "const": None}
pc = os.path.join(src, "__pycache__")
print("C18RESULT " + json.dumps({"state": state, "log": log, "cache": sorted(os.listdir(pc)) if os.path.isdir(pc) else [], "late": late}))
'''


# ----------------------------------------------------------------------------------------------------
# history = {"link": ..., "steps": [ ("run", hooked(list), checker, order(list)) | ("edit",) ]}
# ----------------------------------------------------------------------------------------------------
def run_(hooked, checker, order, **opts):
    """opts: nowrite=True -> the run keeps sys.dont_write_bytecode (python -B; caches are read, not written);
             disable=True -> the run has JAXTYPING_DISABLE=1 (instrumented, but no check is performed)"""
    st = ["run", sorted(hooked) if checker != "nohook" else [], checker, list(order)]
    if opts:
        st.append({k: bool(v) for k, v in sorted(opts.items()) if v})
    return st


def opts_of(st):
    return st[4] if len(st) > 4 else {}


EDIT = ["edit"]
EDIT_SAME_SIZE_OLDER = ["edit-same-size-older"]  # the file is replaced by one of the SAME size carrying an OLDER mtime (pip install of another release, tar, rsync -t, cp -p)


def describe(h):
    parts = ["link=" + h["link"]]
    for st in h["steps"]:
        if st[0] == "edit":
            parts.append("edit-b")
        elif st[0] == "edit-same-size-older":
            parts.append("replace-b-same-size-older-mtime")
        else:
            parts.append(("nohook" if st[2] == "nohook" else "hook(" + "+".join(st[1]) + ";" + CK_SHORT[st[2]] + ")") + "import(" + ",".join(st[3]) + ")" + "".join("[" + k + "]" for k in sorted(opts_of(st))))
    return "|".join(parts)


def oracle_run(link, step, b_version):
    """What the CURRENT source and CURRENT configuration call for -- nothing else."""
    _, hooked, checker, order = step[:4]
    disabled = bool(opts_of(step).get("disable"))
    loaded = []

    def load(m):
        if m in loaded:
            return
        loaded.append(m)
        if m == "a" and link in ("module", "func-at-import"):
            load("b")
    for m in order:
        load(m)
    if link == "function" and "a" in loaded:
        load("b")
    exp = {}
    for m in loaded:
        kind = ("nocheck" if disabled else KIND[checker]) if (checker != "nohook" and m in hooked) else "plain"
        exp[m] = {"kind": kind, "const": 1 if m == "a" else 100 + b_version}
    return exp


def nested_unhooked_b(link, step):
    """Shape of the known mechanism F2: b is NOT hooked but is first imported while the hooked a's body executes."""
    _, hooked, checker, order = step[:4]
    if checker == "nohook" or "a" not in hooked or "b" in hooked or link not in ("module", "func-at-import"):
        return False
    return "a" in order and (("b" not in order) or order.index("a") < order.index("b"))


def curated(tier):
    H = []

    def add(link, *steps):
        H.append({"link": link, "steps": list(steps)})
    # --- the nested-import family (known F2 on the unchanged tree) and its converse
    for X in (TG, BT, None):
        add("module", run_("a", X, "a"), run_("b", X, "b"))
    add("module", run_("a", TG, "a"), run_("ab", TG, "a"))
    add("module", run_("ab", TG, "a"), run_("a", TG, "a"))
    add("func-at-import", run_("a", None, "a"), run_("b", None, "b"))
    add("module", run_("a", TG, "a"), EDIT, run_("b", TG, "b"))
    add("module", run_("a", BT, "a"), run_("b", TG, "b"))          # other checker: separate cache, must be fine
    add("function", run_("a", TG, "a"), run_("b", TG, "b"))        # b imported after a's body finished
    add("module", run_("a", TG, ["b", "a"]), run_("b", TG, "b"))   # b imported first, not nested
    # --- hook everything, then nothing (brief: converse check) and back
    for X, link in ((TG, "module"), (None, "none"), (BT, "function")):
        add(link, run_("ab", X, ["a", "b"]), run_("", "nohook", ["a", "b"]))
    add("module", run_("", "nohook", ["a", "b"]), run_("ab", TG, ["a", "b"]))
    add("none", run_("", "nohook", ["b", "a"]), run_("b", BT, ["b", "a"]))
    add("module", run_("ab", TG, ["a"]), run_("", "nohook", ["a"]), run_("ab", TG, ["a"]))
    # --- checker switches over the same modules
    add("none", run_("ab", TG, ["a", "b"]), run_("ab", BT, ["a", "b"]))
    add("module", run_("ab", None, ["a"]), run_("ab", TG, ["a"]))
    add("module", run_("ab", TG, ["a"]), run_("ab", None, ["a"]))
    add("none", run_("b", TG, "b"), run_("b", BT, "b"), run_("b", TG, "b"))
    # --- module-list switches without nesting
    add("none", run_("a", TG, ["a", "b"]), run_("b", TG, ["a", "b"]))
    add("none", run_("b", BT, ["b", "a"]), run_("a", BT, ["a", "b"]))
    # --- source edits
    add("none", run_("b", TG, "b"), EDIT, run_("b", TG, "b"))
    add("none", run_("", "nohook", ["a", "b"]), EDIT, run_("", "nohook", ["a", "b"]))
    add("module", run_("ab", None, "a"), EDIT, run_("ab", None, "a"))
    add("module", run_("a", TG, "a"), EDIT, run_("a", TG, "a"))
    add("none", run_("", "nohook", "b"), EDIT, run_("b", BT, "b"))
    add("none", run_("b", BT, "b"), EDIT, run_("", "nohook", "b"))
    add("none", run_("b", TG, "b"), EDIT_SAME_SIZE_OLDER, run_("b", TG, "b"))
    add("module", run_("ab", None, "a"), EDIT_SAME_SIZE_OLDER, run_("ab", None, "a"), run_("", "nohook", ["a"]))
    add("none", run_("", "nohook", "b"), EDIT_SAME_SIZE_OLDER, run_("", "nohook", "b"), EDIT_SAME_SIZE_OLDER, run_("b", BT, "b"))
    # --- runs that read but do not write the cache (python -B) after runs that wrote it, and the converse
    add("none", run_("", "nohook", ["a", "b"]), run_("ab", TG, ["a", "b"], nowrite=True))
    add("module", run_("", "nohook", ["a"]), run_("ab", BT, ["a"], nowrite=True), run_("ab", BT, ["a"]))
    add("none", run_("ab", TG, ["a", "b"]), run_("", "nohook", ["a", "b"], nowrite=True))
    add("none", run_("b", TG, "b"), run_("b", BT, "b", nowrite=True))
    # --- the global disable switch is a run-time switch: it must not decide what lands in the cache
    add("none", run_("ab", TG, ["a", "b"], disable=True), run_("ab", TG, ["a", "b"]))
    add("module", run_("ab", BT, ["a"], disable=True), run_("ab", BT, ["a"]), run_("ab", BT, ["a"], disable=True))
    add("none", run_("b", None, "b", disable=True), run_("b", None, "b"))
    add("none", run_("ab", TG, ["a", "b"]), run_("ab", TG, ["a", "b"], disable=True))
    if tier == "thorough":
        for X in (TG, BT, None):
            for link in ("module", "func-at-import"):
                add(link, run_("a", X, "a"), run_("ab", X, ["a", "b"]))
                add(link, run_("ab", X, "a"), run_("a", X, "a"))
                add(link, run_("a", X, ["a", "b"]), run_("b", X, ["b", "a"]))
                add(link, run_("a", X, "a"), run_("b", X, "b"), EDIT, run_("b", X, "b"))
                add(link, run_("a", X, "a"), run_("", "nohook", ["a", "b"]), run_("b", X, "b"))
    return H


def random_history(rng):
    link = rng.choice(["module", "module", "function", "func-at-import", "none"])
    n = rng.choice([2, 2, 3, 3, 4])
    steps = []
    for i in range(n):
        if i > 0 and rng.random() < 0.3:
            steps.append(EDIT if rng.random() < 0.7 else EDIT_SAME_SIZE_OLDER)
        ck = rng.choice(["nohook", TG, BT, None, TG, None])
        hooked = rng.choice(["a", "b", "ab"])
        order = rng.choice([["a", "b"], ["b", "a"], ["a"], ["b"]])
        steps.append(run_(hooked, ck, order, nowrite=rng.random() < 0.15, disable=rng.random() < 0.15))
    return {"link": link, "steps": steps}


# ----------------------------------------------------------------------------------------------------
def child_env(repo, disable=False):
    env = {k: v for k, v in os.environ.items() if k not in ("PYTHONDONTWRITEBYTECODE", "PYTHONSTARTUP", "PYTHONPYCACHEPREFIX", "JAXTYPING_DISABLE")}
    if disable:
        env["JAXTYPING_DISABLE"] = "1"
    env["PYTHONPATH"] = repo
    env["JAX_PLATFORMS"] = "cpu"
    env["PYTHONHASHSEED"] = "0"
    return env


def play(repo, h, keep=False):
    """Run one history in its own temp dir. Returns list of per-run records."""
    d = tempfile.mkdtemp(prefix="b18_")
    src = os.path.join(d, "src")
    os.makedirs(src)
    child = os.path.join(d, "child.py")
    with open(child, "w") as fh:
        fh.write(CHILD)
    base = int(time.time()) - 1000
    ver = 0
    pad = 0

    def put(name, text, t):
        p = os.path.join(src, name)
        with open(p, "w") as fh:
            fh.write(text)
        os.utime(p, (t, t))
    put("a.py", A_SRC[h["link"]], base)
    put("b.py", b_src(ver), base)
    recs = []
    try:
        for st in h["steps"]:
            if st[0] == "edit":
                ver += 1
                pad = ver
                put("b.py", b_src(ver), base + 10 * ver)  # constant, size and mtime (+10 s) all change
                continue
            if st[0] == "edit-same-size-older":
                ver += 1
                put("b.py", b_src(ver, pad), base - 100 * ver)  # constant changes; size identical; mtime OLDER than anything before
                continue
            cfg = {"src": src, "hooked": st[1], "checker": st[2], "order": st[3], "link": h["link"], "nowrite": bool(opts_of(st).get("nowrite"))}
            p = subprocess.run([sys.executable, "-B", child], input=json.dumps(cfg), capture_output=True, text=True, env=child_env(repo, bool(opts_of(st).get("disable"))), cwd=d, timeout=300)
            line = next((ln for ln in p.stdout.splitlines() if ln.startswith("C18RESULT ")), None)
            res = json.loads(line[len("C18RESULT "):]) if line else {"crash": (p.stderr or p.stdout)[-600:]}
            res["expected"] = oracle_run(h["link"], st, ver)
            res["step"] = st
            recs.append(res)
    finally:
        if not keep:
            shutil.rmtree(d, ignore_errors=True)
    return recs


def snippet(h):
    lit = json.dumps(h).replace("null", "None")
    return ("import sys; sys.path.insert(0, '/verif/bounded'); import b18_bytecode_cache as b\n"
            "h = " + lit + "\n"
            "for r in b.play('/repo', h): print(r['step'], 'expected', r['expected'], 'actual', r.get('state'), r.get('cache'))")


def main():
    a = _common.setup("C18 bytecode cache histories")
    rng = random.Random(a.seed)
    T = _common.Tally(max_failures=80)
    hist = curated(a.tier)
    ncur = len(hist)
    seen = {describe(h) for h in hist}
    nrand = 0
    want = 8 if a.tier == "quick" else 260
    while nrand < want:
        h = random_history(rng)
        k = describe(h)
        if k in seen:
            continue
        seen.add(k)
        hist.append(h)
        nrand += 1

    with ThreadPoolExecutor(max_workers=7) as ex:
        results = list(ex.map(lambda h: (h, play(a.repo, h)), hist))

    nruns = 0
    late_seen = set()
    for h, recs in results:
        hid = describe(h)
        f2_shape_so_far = False
        cache_trail = []
        for k, r in enumerate(recs, 1):
            nruns += 1
            st = r["step"]
            f2_shape_so_far = f2_shape_so_far or nested_unhooked_b(h["link"], st)
            # a run is non-trivial iff it is not the first run (some cache exists) and loads at least one module
            T.case(f"{hid}#run{k}", nontrivial=(k > 1), sample=(f"{hid} -> run{k} expects {json.dumps(r['expected'])}" if k == 2 and len(T.samples) < 4 else None))
            if "crash" in r:
                T.fail(f"cache:{hid}:run{k}:child", "run-completes", input=h, expected="run completes", actual=r["crash"], snippet=snippet(h))
                break
            cache_trail.append({"after_run": k, "files": r["cache"]})
            late_seen.update(r.get("late", []))
            for entry in r["log"]:
                pref = "F2:nested-import-cache:" if f2_shape_so_far else "cache:"
                T.fail(f"{pref}{hid}:run{k}:{entry[0]}:{entry[1]}", "module-imports", input=h, expected="import succeeds", actual={"error": entry, "cache_files": cache_trail}, snippet=snippet(h))
            exp, got = r["expected"], r["state"]
            if set(exp) != set(got) and not r["log"]:
                raise RuntimeError(f"harness import model wrong: {hid} run{k}: expected loaded {sorted(exp)}, actual {sorted(got)}")
            for m in sorted(exp):
                if m not in got:
                    continue
                if got[m]["kind"] != exp[m]["kind"]:
                    pref = "F2:nested-import-cache:" if (f2_shape_so_far and m == "b") else "cache:"
                    T.fail(f"{pref}{hid}:run{k}:mod={m}", "instrumentation-matches-current-configuration", input=h, expected=exp[m],
                           actual={"state": got[m], "cache_files": cache_trail}, snippet=snippet(h))
                if got[m]["const"] != exp[m]["const"]:
                    T.fail(f"cache:{hid}:run{k}:mod={m}:const", "code-matches-current-source", input=h, expected=exp[m],
                           actual={"state": got[m], "cache_files": cache_trail}, snippet=snippet(h))

    note = ""
    late_foreign = sorted(m for m in late_seen if not m.startswith(("jaxtyping", "typeguard", "beartype")))
    if late_seen:
        note = f" Modules first imported while bytecode writing was enabled (their own caches, not the test dir): {sorted(late_seen)[:12]}."
    bound = (f"{a.tier}: {len(hist)} histories ({ncur} curated + {nrand} seeded random), {nruns} runs, each run a fresh `python -B` subprocess that pre-imports jaxtyping + the checker with bytecode writing off and then sets "
             "sys.dont_write_bytecode=False (env PYTHONDONTWRITEBYTECODE removed) for the imports under test; one temp dir per history holding a.py, b.py and their __pycache__. "
             "Run space: hook none | hook {a}|{b}|{a,b} x checker {typeguard.typechecked, beartype.beartype, None}; import order (a,b)|(b,a)|(a)|(b); link a->b: module-level import | import inside a function called after "
             "import | inside a function called at import time | none; optional edit of b between runs (constant, size and mtime+10s change); per run optionally `nowrite` (cache read but not written, as under python -B) and `disable` (JAXTYPING_DISABLE=1: hooked modules are instrumented, calls unchecked). History lengths 2-3 (curated), 2-4 (random)." + note
             + (" late-foreign=" + str(late_foreign) if late_foreign else ""))
    rule = ("per run and loaded module: kind in {plain, nocheck, typeguard, beartype} from calling f(3) / f('s') and inspecting __wrapped__ / `jaxtyping` global / the TypeCheckError cause chain, and the module constant; "
            "oracle = current configuration (hooked and checker) and current source only; runs after the first are the non-trivial ones (a cache exists). Failures on module b whose history contains a run where the un-hooked b is "
            "first imported while hooked a's body executes get the prefix F2:nested-import-cache:, everything else cache:.")
    _common.emit(T, bound=bound, rule=rule, exhaustive=False, tier=a.tier, seed=a.seed, wall_s=round(time.time() - a.t0, 1))


if __name__ == "__main__":
    main()
