import warnings, numpy as np
warnings.simplefilter("ignore")
import jax, jax.numpy as jnp, ml_dtypes
from jaxtyping import *
import jaxtyping
names = [n for n in dir(ml_dtypes) if isinstance(getattr(ml_dtypes,n), type) and issubclass(getattr(ml_dtypes,n), np.generic)]
print("ml_dtypes:", names)
cats = dict(Bool=Bool, UInt=UInt, Int=Int, Integer=Integer, Float=Float, Complex=Complex, Inexact=Inexact, Real=Real, Num=Num, Key=Key, Shaped=Shaped)
for n in names:
    dt = np.dtype(getattr(ml_dtypes,n))
    try:
        a = jnp.zeros((2,), dtype=dt); src="jnp"
    except Exception as e:
        a = np.zeros((2,), dtype=dt); src="np "
    acc = [c for c,C in cats.items() if isinstance(a, C[type(a) if src=="np " else jax.Array, "..."])]
    print(f"{n:20s} {src} type-name={a.dtype.type.__name__:20s} kind={dt.kind} accepted-by={acc}")
k = jax.random.key(0); print("key:", k.dtype, k.dtype.type.__name__, isinstance(k, Key[jax.Array, ""]), isinstance(k, jaxtyping.PRNGKeyArray))
k2 = jax.random.key(0, impl="rbg"); print("key rbg:", k2.dtype, k2.dtype.type.__name__, isinstance(k2, Key[jax.Array, ""]))
import tensorflow as tf
for d in [tf.bfloat16, tf.bool, tf.int8, tf.uint16, tf.float16, tf.float64, tf.complex64, tf.string, tf.qint8, tf.float8_e4m3fn if hasattr(tf,'float8_e4m3fn') else tf.int32, tf.int4 if hasattr(tf,'int4') else tf.int32]:
    try:
        print("tf", d.name, "->", d.as_numpy_dtype.__name__, hasattr(d, "type"))
    except Exception as e: print("tf", d, type(e).__name__, e)
x = tf.zeros((2,), dtype=tf.bfloat16); print(isinstance(x, Float[tf.Tensor, "2"]), isinstance(x, BFloat16[tf.Tensor, "2"]), isinstance(tf.zeros((2,),tf.bool), Bool[tf.Tensor,"2"]))
