"""Front end: the verified text is the code that runs.

Reads /repo/jaxtyping/*.py as text on every run (never imports it), locates functions
by qualified name (last definition wins, so @overload stubs are skipped), nested
closures by path, extracts dataclass layouts and module-level constant tables.
"""
from __future__ import annotations

import ast
import hashlib
import os

REPO = os.environ.get("VERIF_REPO", "/repo")


class NotFound(Exception):
    """A contracted function / class is not present in the source -> undecided (exit 2)."""


class Module:
    def __init__(self, relpath: str, repo: str | None = None):
        self.repo = repo or REPO
        self.relpath = relpath
        self.path = os.path.join(self.repo, relpath)
        try:
            with open(self.path, encoding="utf-8") as f:
                self.text = f.read()
        except OSError as e:
            raise NotFound(f"{relpath}: {e}")
        try:
            self.tree = ast.parse(self.text)
        except SyntaxError as e:  # the tree under test does not parse for us
            raise NotFound(f"{relpath}: cannot parse: {e}")
        self.lines = self.text.splitlines()

    # ---- lookup -------------------------------------------------------------------
    def _find_in(self, body, name, kinds):
        found = None
        for n in body:
            if isinstance(n, kinds) and n.name == name:
                found = n  # last definition wins
            # definitions nested in if/try/else at module or function level
            elif isinstance(n, (ast.If, ast.Try, ast.With, ast.For, ast.While)):
                for field in ("body", "orelse", "finalbody"):
                    sub = getattr(n, field, None)
                    if sub:
                        r = self._find_in(sub, name, kinds)
                        if r is not None:
                            found = r
                if isinstance(n, ast.Try):
                    for h in n.handlers:
                        r = self._find_in(h.body, name, kinds)
                        if r is not None:
                            found = r
        return found

    def func(self, qualname: str, pick=None) -> ast.FunctionDef:
        """`A.b` = method b of class A; `f/g` = function g nested (anywhere) inside f.
        `pick` disambiguates several nested definitions of the same name: a predicate
        on the FunctionDef node (e.g. 'calls wrapped_fn_impl')."""
        node_body = self.tree.body
        node = None
        parts = qualname.replace("/", ".").split(".")
        seps = []
        i = 0
        for ch in qualname:
            if ch in "./":
                seps.append(ch)
        for idx, part in enumerate(parts):
            sep = seps[idx - 1] if idx > 0 else "."
            last = idx == len(parts) - 1
            kinds = (ast.FunctionDef, ast.AsyncFunctionDef, ast.ClassDef)
            if sep == "/":
                cands = [
                    n
                    for n in ast.walk(node)
                    if isinstance(n, kinds) and n.name == part and n is not node
                ]
                if pick is not None and last:
                    cands = [c for c in cands if pick(c)]
                if not cands:
                    raise NotFound(f"{self.relpath}: {qualname}: no nested def {part}")
                if len(cands) > 1 and last and pick is None:
                    raise NotFound(
                        f"{self.relpath}: {qualname}: {len(cands)} nested defs named {part}"
                    )
                node = cands[-1]
            else:
                node = self._find_in(node_body, part, kinds)
                if node is None:
                    raise NotFound(f"{self.relpath}: {qualname}: {part} not found")
            node_body = node.body
        return node

    def cls(self, name: str) -> ast.ClassDef:
        n = self._find_in(self.tree.body, name, (ast.ClassDef,))
        if n is None:
            raise NotFound(f"{self.relpath}: class {name} not found")
        return n

    def dataclass_fields(self, name: str) -> list[tuple[str, str]]:
        """[(field, annotation-source)] of a @dataclass, in order."""
        c = self.cls(name)
        out = []
        for s in c.body:
            if isinstance(s, ast.AnnAssign) and isinstance(s.target, ast.Name):
                out.append((s.target.id, ast.unparse(s.annotation)))
        return out

    def segment(self, node) -> str:
        return ast.get_source_segment(self.text, node) or ""

    def sha(self, node) -> str:
        return hashlib.sha256(self.segment(node).encode()).hexdigest()[:16]

    # ---- module-level constant evaluation (tables) -----------------------------------
    def constants(self, call_models=None) -> dict:
        """Symbolically evaluates module-level `Name = <expr>` assignments whose right-hand
        side is built from string/int constants, names already evaluated, list/tuple
        displays, `+`, and calls handled by `call_models` (e.g. _make_dtype). Everything
        else is skipped (not an error). Later assignments override earlier ones."""
        env: dict = {}
        call_models = call_models or {}

        class Skip(Exception):
            pass

        def ev(e):
            if isinstance(e, ast.Constant):
                return e.value
            if isinstance(e, ast.Name):
                if e.id in env:
                    return env[e.id]
                raise Skip
            if isinstance(e, (ast.List, ast.Tuple)):
                out = []
                for x in e.elts:
                    if isinstance(x, ast.Starred):
                        v = ev(x.value)
                        if not isinstance(v, (list, tuple)):
                            raise Skip
                        out.extend(v)
                    else:
                        out.append(ev(x))
                return out if isinstance(e, ast.List) else tuple(out)
            if isinstance(e, ast.Call) and isinstance(e.func, ast.Name) and e.func.id in ("list", "tuple") and e.func.id not in call_models and len(e.args) == 1 and not e.keywords:
                v = ev(e.args[0])
                if not isinstance(v, (list, tuple)):
                    raise Skip
                return list(v) if e.func.id == "list" else tuple(v)
            if isinstance(e, ast.BinOp) and isinstance(e.op, ast.Add):
                a, b = ev(e.left), ev(e.right)
                if type(a) is type(b) and isinstance(a, (list, tuple, str)):
                    return a + b
                raise Skip
            if isinstance(e, ast.Call) and isinstance(e.func, ast.Name):
                m = call_models.get(e.func.id)
                if m is None:
                    raise Skip
                return m(*[ev(a) for a in e.args], **{k.arg: ev(k.value) for k in e.keywords})
            raise Skip

        for s in self.tree.body:
            if isinstance(s, ast.AnnAssign) and isinstance(s.target, ast.Name) and s.value is not None:
                s = ast.Assign(targets=[s.target], value=s.value)
            if isinstance(s, ast.Assign) and len(s.targets) == 1 and isinstance(s.targets[0], ast.Name):
                try:
                    env[s.targets[0].id] = ev(s.value)
                except Skip:
                    env.pop(s.targets[0].id, None)
            elif isinstance(s, ast.AugAssign) and isinstance(s.target, ast.Name) and s.target.id in env:
                # `xs += ys` extends a list IN PLACE (every alias sees it); on str / tuple it rebinds the name
                nm = s.target.id
                try:
                    v = ev(s.value)
                    cur = env[nm]
                    if isinstance(s.op, ast.Add) and isinstance(cur, list) and isinstance(v, (list, tuple)):
                        cur.extend(v)
                    elif isinstance(s.op, ast.Add) and type(cur) is type(v) and isinstance(cur, (str, tuple)):
                        env[nm] = cur + v
                    else:
                        raise Skip
                except Skip:
                    self._forget(env, nm)
            elif isinstance(s, ast.Expr) and isinstance(s.value, ast.Call) and isinstance(s.value.func, ast.Attribute) and isinstance(s.value.func.value, ast.Name) and s.value.func.value.id in env:
                # a method call on an evaluated container at module level: append / extend are applied, anything else may mutate it (forgotten)
                nm, c = s.value.func.value.id, s.value
                try:
                    if isinstance(env[nm], list) and c.func.attr in ("append", "extend") and len(c.args) == 1 and not c.keywords:
                        v = ev(c.args[0])
                        if c.func.attr == "append":
                            env[nm].append(v)
                        elif isinstance(v, (list, tuple)):
                            env[nm].extend(v)
                        else:
                            raise Skip
                    elif isinstance(env[nm], (str, tuple, int)) or env[nm] is None:
                        pass  # immutable
                    else:
                        raise Skip
                except Skip:
                    self._forget(env, nm)
            elif isinstance(s, ast.Delete):
                for t in s.targets:
                    if isinstance(t, ast.Name):
                        env.pop(t.id, None)
        return env

    @staticmethod
    def _forget(env, nm):
        """drops `nm` and every name bound to the same (mutable) object"""
        obj = env.get(nm)
        for k in [k for k, v in env.items() if v is obj]:
            env.pop(k, None)


def struct_dtype_helper(mod) -> str:
    """the private predicate "is this a NumPy structured dtype", found by ROLE: the module-level function that make_numpy_struct_dtype calls on its first
    parameter next to the isinstance test (the name it has in the pinned tree is the fallback)"""
    try:
        ms = mod.func("make_numpy_struct_dtype")
        p0 = ms.args.args[0].arg
        top = {b.name for b in mod.tree.body if isinstance(b, ast.FunctionDef)}
        cands = sorted({c.func.id for c in ast.walk(ms) if isinstance(c, ast.Call) and isinstance(c.func, ast.Name) and c.func.id in top and c.func.id != "_make_dtype"
                        and len(c.args) == 1 and isinstance(c.args[0], ast.Name) and c.args[0].id == p0})
        if len(cands) == 1:
            return cands[0]
    except Exception:
        pass
    return "_dtype_is_numpy_struct_array"


def free_names(fn: ast.FunctionDef) -> set[str]:
    """Names loaded in fn that are neither parameters nor assigned locally (captures + globals)."""
    params = {a.arg for a in fn.args.posonlyargs + fn.args.args + fn.args.kwonlyargs}
    if fn.args.vararg:
        params.add(fn.args.vararg.arg)
    if fn.args.kwarg:
        params.add(fn.args.kwarg.arg)
    stored, loaded = set(), set()
    for n in ast.walk(fn):
        if isinstance(n, ast.Name):
            (stored if isinstance(n.ctx, (ast.Store, ast.Del)) else loaded).add(n.id)
        elif isinstance(n, (ast.FunctionDef, ast.ClassDef)) and n is not fn:
            stored.add(n.name)
        elif isinstance(n, ast.ExceptHandler) and n.name:
            stored.add(n.name)
        elif isinstance(n, (ast.Import, ast.ImportFrom)):
            for a in n.names:
                stored.add((a.asname or a.name).split(".")[0])
    return loaded - stored - params
