import warnings, numpy as np, sys, pickle, copy, asyncio
warnings.simplefilter("ignore")
import jax, jax.numpy as jnp
import typeguard, beartype
from jaxtyping import *
import jaxtyping
from jaxtyping import jaxtyped, PyTree, print_bindings
from typing import Iterator, Union
def sec(s): print("\n=== "+s)

sec("C07 lambda")
for tc in (typeguard.typechecked, beartype.beartype):
    try:
        f = jaxtyped(typechecker=tc)(lambda x: x); print("ok", f(1))
    except BaseException as e: print(tc.__name__, type(e).__name__, str(e)[:100])

sec("C07 async def with return annotation")
for tc in (typeguard.typechecked, beartype.beartype):
    @jaxtyped(typechecker=tc)
    async def af(x: Float[np.ndarray, "a"]) -> Float[np.ndarray, "a"]:
        return x
    try:
        r = asyncio.run(af(np.zeros(3))); print(tc.__name__, "ok", r.shape)
    except BaseException as e: print(tc.__name__, type(e).__name__, str(e)[:200].replace("\n"," | "))

sec("C04 BaseException mid-check")
class Boom:
    @property
    def v(self): raise KeyboardInterrupt()
with jaxtyped("context"):
    # need arg memo: use a jaxtyped fn
    pass
@jaxtyped(typechecker=None)
def g(x, b):
    try:
        isinstance(x, Float[np.ndarray, "p {b.v}"])
    except BaseException as e:
        print("raised", type(e).__name__)
    print_bindings(); print("--end bindings")
g(np.zeros((3,4)), Boom())
class Boom2:
    @property
    def v(self): raise RuntimeError()
@jaxtyped(typechecker=None)
def g2(x, b):
    try:
        isinstance(x, Float[np.ndarray, "p {b.v}"])
    except BaseException as e:
        print("raised", type(e).__name__)
    print_bindings(); print("--end bindings")
g2(np.zeros((3,4)), Boom2())

sec("C12 make_transparent via alias")
Vec = Float[np.ndarray, "1"]
print("before", isinstance(np.zeros(2), Vec))
@jaxtyped
@typeguard.typechecked
def gen(x: Vec) -> Iterator[Vec]:
    yield x
print("after", isinstance(np.zeros(2), Vec), isinstance("notarray", Vec))

sec("C13 stale bindings in message")
@jaxtyped(typechecker=typeguard.typechecked)
def h(x: Float[np.ndarray, "a b"], y: Float[np.ndarray, "c a"]): pass
try: h(np.zeros((3,4)), np.zeros((5,7)))
except TypeCheckError as e: print(str(e).split("----------------------")[-1])
@jaxtyped(typechecker=typeguard.typechecked)
def h2(x: Union[Float[np.ndarray, "a a"], Float[np.ndarray, "a b"]], y: Float[np.ndarray, "b"]): pass
try: h2(np.zeros((3,4)), np.zeros((5,)))
except TypeCheckError as e: print(str(e).split("----------------------")[-1])

sec("C20 nested pickling")
A = Shaped[Float[np.ndarray, "a"], "b"]
B = pickle.loads(pickle.dumps(A))
x = np.zeros((2,3), dtype=np.int32)
print("orig accepts int:", isinstance(x, A), " roundtrip accepts int:", isinstance(x, B), A.dtypes == B.dtypes)

sec("C16 ? inside structure-less PyTree inside structured")
@jaxtyped(typechecker=typeguard.typechecked)
def k(x: PyTree[PyTree[Shaped[np.ndarray, "?foo"]], "T"]): pass
try: k((np.zeros(3), np.zeros(4))); print("ok")
except BaseException as e: print(type(e).__name__, str(e)[:150])
@jaxtyped(typechecker=typeguard.typechecked)
def k2(x: PyTree[tuple[Shaped[np.ndarray, "?foo"], int], "T"]): pass
try: k2([(np.zeros(3),1), (np.zeros(4),2)]); print("ok tuple leaf")
except BaseException as e: print(type(e).__name__, str(e)[:150])

sec("C03 longlong")
a = np.zeros(3, dtype=np.longlong)
print(a.dtype, isinstance(a, Int64[np.ndarray, "3"]), isinstance(a, Int[np.ndarray, "3"]), isinstance(np.zeros(3,np.int64), Int64[np.ndarray,"3"]))
print("jnp longlong:", jnp.zeros(3, dtype=np.longlong).dtype.type.__name__ if jax.config.jax_enable_x64 else jnp.zeros(3, dtype=np.intc).dtype.type.__name__)
