"""Unit: the dispatch of jaxtyping._decorator.jaxtyped (C07 descriptor kinds / wrapper construction, C19 call-time switch,
C05 context entry point).  The body of `jaxtyped` is executed for each kind of first argument; recursive `jaxtyped(...)`
calls, `_make_fn_with_signature` (unit make_fn) and the type checker are used by contract.

  "context"      -> a _JaxtypingContext (ValueError if a typechecker is given)
  no fn          -> functools.partial(jaxtyped, typechecker=<given or None>)
  class          -> returned as is; if a dataclass and a checker is given, __init__ := jaxtyped(__init__, typechecker=...) unless
                    it already is a jaxtyping wrapper -- independently of the disable switch (the switch is read at CALL time)
  classmethod / staticmethod / property -> rebuilt around jaxtyped(<inner function(s)>, typechecker=...)
  function       -> functools.wraps(fn)(wrapped_fn); new style: both synthetic functions come from _make_fn_with_signature with
                    the callable's own name/qualname/module and are wrapped by exactly the given type checker
"""
from __future__ import annotations

import ast

import z3

from ..engine import Engine, Raised, is_raised, mkbool
from ..source import Module
from ..values import BOOL, INT, NONE, STR, U, Cls, DictObj, Exc, Fn, ListObj, NoneV, Obj, Opaque, Ref, State, Tup, Unsupported, Z

NAME = "dispatch"
REL = "jaxtyping/_decorator.py"


def build(repo=None):
    mod = Module(REL, repo)
    jt = mod.func("jaxtyped")
    functions = [{"qualname": "jaxtyping._decorator.jaxtyped", "sha256_16": mod.sha(jt), "lines": [jt.lineno, jt.end_lineno]}]
    obligations = []
    paths = 0
    sentinel = Opaque("sentinel:_sentinel", z3.Const("decorator_sentinel", U))

    def run_case(fn_val, tc_given, kind, isclass=False, is_dc=False, desc=None, already=False, gen=False):
        nonlocal paths
        eng = Engine(mod)
        eng.auto_inline = True
        eng.approx_opaque_loops = True
        eng.user_raises = ["OtherException", "NonExceptionBase"]
        log = []
        tc = Opaque("the-typechecker") if tc_given else sentinel
        cfg_reads = []
        cfg = Opaque("config")

        def m_cfg(e, s, recv, node):
            if recv is cfg:
                s.ghost.setdefault("cfg_reads", [])
                s.ghost["cfg_reads"] = s.ghost["cfg_reads"] + ["read"]
            return None

        eng.attr_models["jaxtyping_disable"] = m_cfg

        def m_jaxtyped(e, s, a, kw, nd):
            s1 = s.clone()
            r = Opaque(f"jaxtyped({getattr(a[0], 'tag', a[0]) if a else '?'})")
            s1.ghost["rec"] = s1.ghost.get("rec", []) + [(a[0] if a else None, kw.get("typechecker"), r)]
            return [(s1, r)]

        def m_make(e, s, a, kw, nd):
            s1 = s.clone()
            out_flag = kw.get("output", a[4] if len(a) > 4 else None)
            r = Opaque("synthetic-fn")
            s1.ghost["made"] = s1.ghost.get("made", []) + [(list(a), dict(kw), r)]
            is_out = isinstance(out_flag, Z) and z3.is_true(z3.simplify(out_flag.t))
            return [(s1, Tup([r, Z("str", z3.String("output_name"))]) if is_out else r)]

        def m_checker_call(e, s, fv, a):
            s1 = s.clone()
            r = Opaque("checked-fn")
            s1.ghost["checked"] = s1.ghost.get("checked", []) + [(a[0] if a else None, r)]
            return [(s1, r), (s.fork(None, "typechecker:raises"), Raised(Exc(frozenset(e.user_raises), origin="typechecker")))]

        def ctor(name):
            def f(e, s, cls, a, kw, nd):
                s1 = s.clone()
                return [(s1, s1.alloc(Obj(name, {"args": Tup(a), **{k: v for k, v in kw.items()}}, tag=name)))]
            return f

        for cn in ("classmethod", "staticmethod", "property", "_JaxtypingContext"):
            eng.globals[cn] = Cls(cn)
            eng.method_models["new:" + cn] = ctor(cn)

        def isinst(e, s, v, c):
            if isinstance(c, Cls) and c.name in ("classmethod", "staticmethod", "property"):
                return z3.BoolVal(desc == c.name and v is s.env.get("fn"))
            return None

        eng.method_models["__isinstance__"] = isinst

        def eq_hook(e, s, a, b):
            # a callable / class / descriptor object is not equal to the string "context"
            for x, y in ((a, b), (b, a)):
                if isinstance(y, Z) and y.kind == "str" and z3.is_string_value(y.t) and y.t.as_string() == "context" and isinstance(x, (Opaque, Ref)):
                    return z3.BoolVal(False)
            return None

        eng.method_models["__eq__"] = eq_hook

        def getitem_hook(e, s, v, a, kw, nd):
            if isinstance(v, Opaque) and v.tag.startswith("globals:") and a and isinstance(a[0], Z) and z3.is_string_value(a[0].t) and a[0].t.as_string() == "__name__":
                return [(s, v.attrs["__modname__"])]
            return None

        eng.method_models["__getitem__"] = getitem_hook
        wraps_of = {}

        def m_wraps(e, s, recv, a, kw, nd):
            target = a[0]

            def deco(e2, s2, a2, kw2, nd2):
                s3 = s2.clone()
                w = s3.alloc(Obj("wrapped-function", {"__wrapped__": target, "inner": a2[0]}, tag="wrapper"))
                return [(s3, w)]

            return [(s, Fn("wraps-decorator", model=deco))]

        eng.method_models["wraps"] = m_wraps
        eng.method_models["partial"] = lambda e, s, recv, a, kw, nd: [(s, Opaque("partial", attrs={"func": a[0] if a else NONE, "kw_typechecker": kw.get("typechecker", NONE)}))]
        eng.method_models["warn"] = lambda e, s, recv, a, kw, nd: [(s, NONE)]
        eng.method_models["isclass"] = lambda e, s, recv, a, kw, nd: [(s, mkbool(isclass))]
        eng.method_models["is_dataclass"] = lambda e, s, recv, a, kw, nd: [(s, mkbool(is_dc))]
        eng.method_models["isgeneratorfunction"] = lambda e, s, recv, a, kw, nd: [(s, mkbool(gen))]
        eng.method_models["isasyncgenfunction"] = lambda e, s, recv, a, kw, nd: [(s, mkbool(False))]
        def m_signature(e, s, recv, a, kw, nd):
            s1_ = s.clone()
            s1_.ghost["signature_calls"] = s1_.ghost.get("signature_calls", []) + [(tuple(a), dict(kw))]
            return [(s1_, Opaque("signature", attrs={"parameters": Opaque("parameters"), "return_annotation": Opaque("ret-annotation")}))]

        eng.method_models["signature"] = m_signature
        eng.method_models["__listcomp__"] = lambda e, s, node: [(s, Opaque("list-built-by-a-comprehension"))]
        def m_replace(e, s, recv, a, kw, nd):
            s1_ = s.clone()
            s1_.ghost["replace_calls"] = s1_.ghost.get("replace_calls", []) + [(getattr(recv, "tag", "?"), sorted(kw))]
            return [(s1_, Opaque("signature'", attrs={"parameters": Opaque("parameters"), "return_annotation": Opaque("ret-annotation")}))]

        eng.method_models["replace"] = m_replace
        eng.method_models["items"] = lambda e, s, recv, a, kw, nd: [(s, Opaque("items"))] if isinstance(recv, Opaque) else None
        def m_get(e, s, recv, a, kw, nd):
            if not isinstance(recv, Opaque):
                return None
            s1_ = s.clone()
            s1_.ghost["hint_gets"] = s1_.ghost.get("hint_gets", []) + [(recv.tag, a[1].tag if len(a) > 1 and isinstance(a[1], Opaque) else (repr(a[1]) if len(a) > 1 else "<no default>"))]
            return [(s1_, Opaque("got"))]

        eng.method_models["get"] = m_get
        eng.method_models["make_transparent"] = lambda e, s, recv, a, kw, nd: [(s, NONE)]
        def m_get_type_hints(e, s, a, kw, nd):
            # Annotated[...] metadata (e.g. beartype validators) must survive into the synthesised signatures: include_extras=True
            ie = kw.get("include_extras")
            ok = len(a) == 1 and isinstance(ie, Z) and ie.kind == "bool" and z3.is_true(z3.simplify(ie.t))
            e.oblige(s, "C07:annotations-are-resolved-from-the-function-itself-with-include_extras=True(Annotated-metadata-reaches-the-checker)", z3.BoolVal(bool(ok)))
            return [(s, Opaque("hints")), (s.fork(None, "hints:NameError"), Raised(Exc("NameError", origin="get_type_hints")))]

        eng.globals.update({
            "_sentinel": sentinel, "_tb_flag": mkbool(False), "config": cfg, "jaxtyped": Fn("jaxtyped", model=m_jaxtyped),
            "_make_fn_with_signature": Fn("_make_fn_with_signature", model=m_make), "Any": Opaque("sentinel:Any"),
            "get_type_hints": Fn("get_type_hints", model=m_get_type_hints),
            "get_args": Fn("get_args", model=lambda e, s, a, kw, nd: [(s, Tup([]))]),
            "ft": Opaque("global:ft"), "inspect": Opaque("global:inspect", attrs={"Signature": Opaque("Signature", attrs={"empty": Opaque("sentinel:empty")})}), "dataclasses": Opaque("global:dataclasses"), "warnings": Opaque("global:warnings"),
            "weakref": Opaque("global:weakref"), "__name__": Z("str", z3.StringVal("jaxtyping._decorator")), "AbstractArray": Cls("AbstractArray"), "issubclass": Fn("issubclass", model=lambda e, s, a, kw, nd: [(s, mkbool(False))]),
        })
        eng.method_models["ref"] = lambda e, s, recv, a, kw, nd: [(s, Opaque("weakref"))]
        orig_call = None
        from .. import calls as C

        # the type checker is an opaque callable value: route its calls
        real_opaque_call = C.opaque_call

        def patched_opaque_call(e, s, tag, a, kw, fv=None, **rest):
            if fv is tc:
                return m_checker_call(e, s, fv, a)
            return real_opaque_call(e, s, tag, a, kw, fv, **rest)

        C.opaque_call = patched_opaque_call
        try:
            st = State()
            st.ghost.update(stack=[], rec=[], made=[], checked=[], cfg_reads=[])
            if isinstance(fn_val, Ref):
                pass
            st.env = {"fn": fn_val, "typechecker": tc}
            if isinstance(fn_val, tuple):
                # (builder) heap objects are allocated in this state
                fn_obj = fn_val[0](st)
                st.env["fn"] = fn_obj
            fnv = st.env["fn"]
            fn0 = st.get(fnv) if isinstance(fnv, Ref) else None
            st.path = [kind]
            none_u = z3.Const("PyNone", U)
            if tc_given:
                st.pc += [tc.t != sentinel.t, tc.t != none_u]
            if isinstance(fnv, Opaque) and fnv is not sentinel:
                st.pc += [fnv.t != sentinel.t]
            if fn0 is not None:
                st.pc += [x.t != none_u for x in fn0.attrs.values() if isinstance(x, Opaque)]
            outs = eng.run(jt.body, st)
        finally:
            C.opaque_call = real_opaque_call
        for s1, o in outs:
            paths += 1
            rec, made, checked = s1.ghost.get("rec", []), s1.ghost.get("made", []), s1.ghost.get("checked", [])
            tc_eff = tc if tc_given else None

            def same_tc(x):
                return (x is tc) if tc_given else isinstance(x, NoneV)

            eng.oblige(s1, "C19:decoration-never-reads-the-disable-switch(it-is-read-at-call-time)", z3.BoolVal(not s1.ghost.get("cfg_reads")), kind=z3.StringVal(kind))
            if o.kind == "raise":
                ok = (kind == "context+checker" and o.val.classes() == {"ValueError"}) or o.val.origin in ("typechecker", "get_type_hints") and kind.startswith("function")
                eng.oblige(s1, f"C07:decoration-raises-only-for-context-with-a-checker-or-from-the-checker-itself[{kind}:{'/'.join(sorted(o.val.classes()))} from {o.val.origin}]", z3.BoolVal(bool(ok)))
                continue
            v = o.val if o.kind == "return" else None
            if kind == "context":
                eng.oblige(s1, "C05:jaxtyped('context')-returns-a-context-manager-object", z3.BoolVal(isinstance(v, Ref) and s1.get(v).cls == "_JaxtypingContext"))
            elif kind == "context+checker":
                eng.oblige(s1, "C05:jaxtyped('context', typechecker=...)-is-rejected", z3.BoolVal(False))
            elif kind == "no-fn":
                eng.oblige(s1, "C07:decorator-factory-form-is-partial(jaxtyped, typechecker=given-or-None)", z3.BoolVal(isinstance(v, Opaque) and v.tag == "partial" and isinstance(v.attrs["func"], Fn) and v.attrs["func"].name == "jaxtyped" and same_tc(v.attrs["kw_typechecker"])))
            elif kind.startswith("class:"):
                now = s1.get(fnv)
                eng.oblige(s1, "C07:decorating-a-class-returns-the-class-itself", z3.BoolVal(isinstance(v, Ref) and v.h == fnv.h))
                if is_dc and tc_given and not already:
                    good = len(rec) == 1 and rec[0][0] is fn0.attrs["__init__"] and rec[0][1] is tc and now.attrs.get("__init__") is rec[0][2]
                    eng.oblige(s1, "C07:dataclass-__init__-is-replaced-by-jaxtyped(__init__, typechecker=the-given-checker)", z3.BoolVal(good))
                else:
                    eng.oblige(s1, "C07:non-dataclass/unchecked/already-wrapped-class-is-left-untouched", z3.BoolVal(now is fn0 and not rec))
            elif kind in ("classmethod", "staticmethod"):
                good = isinstance(v, Ref) and s1.get(v).cls == kind and len(rec) == 1 and rec[0][0] is fn0.attrs["__func__"] and same_tc(rec[0][1]) and s1.get(v).attrs["args"].items[0] is rec[0][2]
                eng.oblige(s1, f"C07:{kind}-is-rebuilt-around-jaxtyped(__func__, typechecker=...)", z3.BoolVal(bool(good)))
            elif kind.startswith("property"):
                pv = s1.get(v) if isinstance(v, Ref) else None
                good = pv is not None and pv.cls == "property"
                if good:
                    for slot in ("fget", "fset", "fdel"):
                        orig = fn0.attrs[slot]
                        newv = pv.attrs.get(slot)
                        if isinstance(orig, NoneV):
                            good = good and isinstance(newv, NoneV)
                        else:
                            r = [x for x in rec if x[0] is orig]
                            good = good and len(r) == 1 and same_tc(r[0][1]) and newv is r[0][2]
                eng.oblige(s1, "C07:property-is-rebuilt-with-each-present-accessor-wrapped-and-absent-ones-None", z3.BoolVal(bool(good)))
            elif kind.startswith("function"):
                w = s1.get(v) if isinstance(v, Ref) else None
                good = w is not None and w.cls == "wrapped-function" and w.attrs["__wrapped__"] is fnv and isinstance(w.attrs["inner"], Fn) and w.attrs["inner"].name == "wrapped_fn"
                eng.oblige(s1, "C07:function-is-replaced-by-functools.wraps(fn)(wrapped_fn)", z3.BoolVal(bool(good)))
                # what the wrapper shows to introspection is what functools.wraps copied and nothing else: inspect.signature(wrapper) follows
                # __wrapped__ to the user's own signature (an own __signature__ / __annotations__ would replace it by a processed copy)
                eng.oblige(s1, "C07:the-wrapper-gets-no-attribute-of-its-own-besides-what-functools.wraps-sets(signature-and-metadata-stay-the-function's)", z3.BoolVal(w is not None and set(w.attrs) == {"__wrapped__", "inner"}))
                if tc_given:
                    # resolving string annotations is best effort: where get_type_hints has no entry -- or fails altogether -- every parameter keeps
                    # the annotation it was written with (a real annotation is never dropped)
                    hg = [g_ for g_ in s1.ghost.get("hint_gets", []) if g_[0] == "hints"]
                    eng.oblige(s1, "C07:an-annotation-that-get_type_hints-does-not-supply-falls-back-to-the-parameter's-own-annotation(never-to-'no-annotation')",
                               z3.BoolVal(all(d_.endswith("annotation") for _, d_ in hg)), defaults=z3.StringVal(",".join(d_ for _, d_ in hg)))
                    if "hints:NameError" in s1.path:
                        eng.oblige(s1, "C07:when-get_type_hints-fails-the-signature-is-used-as-written(no-parameter-is-rewritten)",
                                   z3.BoolVal(not any("parameters" in kws for _, kws in s1.ghost.get("replace_calls", [])) and not s1.ghost.get("hint_gets")))
                    sg = [c_ for c_ in s1.ghost.get("signature_calls", [])]
                    eng.oblige(s1, "C07:the-signature-is-taken-from-the-function-with-inspect.signature(fn)(defaults:-wrapped-functions-are-followed)",
                               z3.BoolVal(len(sg) >= 1 and all(len(a_) == 1 and a_[0] is fnv and not kw_ for a_, kw_ in sg)))
                    ok_made = len(made) == 2 and all(len(a) >= 4 for a, kw, r in made)
                    eng.oblige(s1, "C07:two-synthetic-functions-are-made(full-signature-with-output, parameters-only)", z3.BoolVal(ok_made))
                    if ok_made:
                        outs_flags = []
                        for a, kw, r in made:
                            f = kw.get("output", a[4] if len(a) > 4 else None)
                            outs_flags.append(isinstance(f, Z) and z3.is_true(z3.simplify(f.t)))
                        eng.oblige(s1, "C07:exactly-one-synthetic-function-carries-the-return-slot", z3.BoolVal(sorted(outs_flags) == [False, True]))
                        eng.oblige(s1, "C07:both-synthetic-functions-are-wrapped-by-exactly-the-given-checker", z3.BoolVal(len(checked) == 2 and {id(c[0]) for c in checked} == {id(r) for a, kw, r in made}))
                else:
                    eng.oblige(s1, "C07:typechecker=None-builds-no-synthetic-functions-and-calls-no-checker", z3.BoolVal(not made and not checked))
        for ob in st.obl:
            ob = dict(ob)
            ob.setdefault("kind", "vc")
            c = ob["clause"]
            ob["serves"] = [c[:3]] if c[:3] in ("C05", "C07", "C19") else ["C07"]
            if c.startswith("C19"):
                ob["serves"] = ["C19", "C07"]
            if "the-signature-is-taken-from-the-function" in c:
                ob["serves"] = ["C07", "C02"]  # no parameter annotation reaches the checker if the wrapper's own (*args, **kwargs) signature is read
            if "function-is-replaced-by-functools.wraps" in c or "dataclass-__init__-is-replaced" in c:
                # every decorated callable gets the wrapper that opens its own context and runs the checks (C05, C02, C13 depend on it)
                ob["serves"] = ["C07", "C05", "C02", "C13", "C19"]
            obligations.append(ob)

    def globals_of(modname):
        # fn.__globals__["__name__"]: the module the function object was defined in
        return Tup([Z("str", z3.StringVal(modname))])  # indexed only with "__name__" (see index hook below)

    def fn_like(tag, modname):
        return Opaque(tag, attrs={"__name__": Z("str", z3.String("fn_name")), "__qualname__": Z("str", z3.String("fn_qualname")), "__module__": Z("str", z3.String("fn_module")),
                                  "__annotations__": Opaque("annotations"), "__globals__": Opaque("globals:" + modname, attrs={"__modname__": Z("str", z3.StringVal(modname))})})

    fn_plain = fn_like("fn", "user_module")
    fn_wrapped_already = fn_like("fn", "jaxtyping._decorator")  # e.g. the result of an inner jaxtyped(typechecker=None)
    run_case(Z("str", z3.StringVal("context")), False, "context")
    run_case(Z("str", z3.StringVal("context")), True, "context+checker")
    run_case(sentinel, True, "no-fn")
    run_case(sentinel, False, "no-fn")
    mk_cls = lambda attrs: (lambda st: st.alloc(Obj("user-class", attrs, tag="fn")),)
    init_plain = Opaque("user.__init__", attrs={"__globals__": Opaque("globals:user_module", attrs={"__modname__": Z("str", z3.StringVal("user_module"))})})
    init_wrapped = Opaque("user.__init__", attrs={"__globals__": Opaque("globals:jaxtyping._decorator", attrs={"__modname__": Z("str", z3.StringVal("jaxtyping._decorator"))})})
    run_case(mk_cls({"__init__": init_plain}), True, "class:dataclass", isclass=True, is_dc=True)
    run_case(mk_cls({"__init__": init_plain}), False, "class:dataclass-unchecked", isclass=True, is_dc=True)
    run_case(mk_cls({"__init__": init_plain}), True, "class:plain", isclass=True, is_dc=False)
    run_case(mk_cls({"__init__": init_wrapped}), True, "class:dataclass-already-wrapped", isclass=True, is_dc=True, already=True)
    for d in ("classmethod", "staticmethod"):
        inner = Opaque(f"{d}.__func__")
        for tcg in (True, False):
            run_case((lambda st, inner=inner, d=d: st.alloc(Obj(d, {"__func__": inner}, tag="fn")),), tcg, d, desc=d)
    for slots in (("g", "s", "d"), ("g", None, None), (None, None, None)):
        attrs = {n: (Opaque(f"prop.{n}") if v else NONE) for n, v in zip(("fget", "fset", "fdel"), slots)}
        run_case((lambda st, attrs=attrs: st.alloc(Obj("property", dict(attrs), tag="fn")),), True, "property:" + "".join(x or "-" for x in slots), desc="property")
    run_case(fn_plain, True, "function:new-style")
    run_case(fn_wrapped_already, True, "function:new-style-over-an-existing-jaxtyped-wrapper")
    run_case(fn_plain, False, "function:old-style")
    run_case(fn_plain, False, "function:old-style-generator", gen=True)
    obligations.append({"clause": "canary-struct:dispatch-paths", "kind": "canary", "pc": [], "goal": z3.BoolVal(paths == 0), "path": [], "meta": {}})
    return {"unit": NAME, "functions": functions, "obligations": obligations, "paths": paths, "stats": {},
            "assumptions": [
                "inspect.isclass / dataclasses.is_dataclass / isinstance(fn, classmethod|staticmethod|property) classify the argument as the case says; inspect.signature / get_type_hints / Signature.replace are pure (get_type_hints may raise NameError)",
                "functools.wraps(fn)(w) returns w carrying fn's name/qualname/doc/module/signature (T5; bounded stand-in b07)",
                "loops over inspect objects (parameters.items()) are over-approximated by zero or one arbitrary iteration with the assigned names forgotten",
                "recursive jaxtyped(...) calls, _make_fn_with_signature (unit make_fn) and the type checker are used by contract",
            ]}
