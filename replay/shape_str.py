"""Replays refuted obligations of unit shape_str natively: the counter-model is abstract (an arbitrary item of an arbitrary memo),
so the real shape_str is run over a small catalogue of memos (all combinations of empty / plain / hidden-label / two-entry
contents of the three memos) against the statement-level expectation written here; the first disagreeing memo is the witness."""
import json, sys, argparse, itertools
ap = argparse.ArgumentParser(); ap.add_argument("--repo"); a = ap.parse_args()
payload = json.load(sys.stdin)
HIDDEN = "~~delete~~"


def expected(sigma, nu, pi):
    vis_s = [(k, v) for k, v in sigma.items() if not k.startswith(HIDDEN)]
    vis_n = [(k, v[1]) for k, v in nu.items() if not k.startswith(HIDDEN)]
    out = []
    if vis_s or vis_n:
        out.append("AXIS-HEADER")
        out += [f"{k}={v}" for k, v in vis_s] + [f"{k}={v}" for k, v in vis_n]
    if pi:
        out.append("STRUCT-HEADER")
        out += [f"{k}={v}" for k, v in pi.items()]
    return out


def normalise(text):
    lines = text.split("\n") if text else []
    out = []
    for ln in lines:
        if "=" not in ln and "axis annotation" in ln:
            out.append("AXIS-HEADER")
        elif "=" not in ln and "structure annotation" in ln:
            out.append("STRUCT-HEADER")
        else:
            out.append(ln)
    return out


from jaxtyping._storage import shape_str
S = [{}, {"a": 3}, {"a": 3, HIDDEN + "(T) x": 4}, {"b": 1, "a": 2}, {HIDDEN + "only": 7}]
N = [{}, {"c": (False, (2, 3))}, {HIDDEN + "q": (True, (1,))}, {"d": (True, ()), "c": (False, (5,))}]
P = [{}, {"T": "PyTreeDef(*)"}, {"T": 1, "S": 2}]
fails = []
n = 0
for s, nu, pi in itertools.product(S, N, P):
    n += 1
    try:
        got = normalise(shape_str((dict(s), dict(nu), dict(pi), {"arg": 0})))
    except BaseException as e:  # noqa
        got = ["raised " + type(e).__name__ + ": " + str(e)[:80]]
    want = expected(s, nu, pi)
    if got != want:
        fails.append({"memos": [repr(s), repr(nu), repr(pi)], "expected": want, "native": got})
out = {"reproduced": bool(fails), "model_concrete": False, "searched": n, "failures": fails[:4],
       "snippet": ("from jaxtyping._storage import shape_str; print(shape_str((%s, %s, %s, {})))" % tuple(fails[0]["memos"])) if fails else None}
print(json.dumps(out, default=str))
