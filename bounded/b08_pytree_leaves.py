"""Bounded stand-in for C08: PyTree[L] accepts exactly the trees all of whose leaves match L.

Oracle = an own small tree algebra (tuple / list / dict with sorted keys / None / namedtuple / one class registered as a
pytree node) plus a tiny reference matcher for the seven leaf types; no jax.tree_util and no jaxtyping code in the oracle.

  leaves(x, L)   top-down: a sub-tree that matches L (type-wise) is a leaf; None and empty containers contribute nothing;
                 other containers are descended into; everything else is a leaf.
  accept(x, L)   x is None (top level)  or  every leaf matches L, the array leaves consistently with one axis environment
                 that is shared with the rest of the context ('a' = size of the last axis, '*b' = the leading axes).
  A rejected tree leaves the environment unchanged; an accepted one adds its bindings.

Every case is a *sequence* of isinstance checks inside one `with jaxtyped("context")`: optional state set-up, the PyTree check,
then probe checks (`Float[np.ndarray,"a"]`, `Float[np.ndarray,"*b"]` on small arrays) that make the bindings observable from
outside.  The oracle simulates the same sequence.  In addition jaxtyping._storage.get_shape_memo() is compared before/after
a rejected check.

Run: PYTHONPATH=<repo>:/verif /venv/bin/python bounded/b08_pytree_leaves.py --tier quick|thorough --seed N --repo <repo>
"""
import collections
import itertools
import os
import random
import sys
import time
import typing

sys.path.insert(0, os.path.dirname(os.path.abspath(__file__)))
import _common  # noqa: E402
import numpy as np  # noqa: E402

# --------------------------------------------------------------------------------------------
# containers
# --------------------------------------------------------------------------------------------
NT0 = collections.namedtuple("NT0", "")
NT1 = collections.namedtuple("NT1", "p")
NT2 = collections.namedtuple("NT2", "p q")
NT3 = collections.namedtuple("NT3", "p q r")
NT4 = collections.namedtuple("NT4", "p q r s")
NT5 = collections.namedtuple("NT5", "p q r s t")
NTS = {0: NT0, 1: NT1, 2: NT2, 3: NT3, 4: NT4, 5: NT5}


class Box:
    """Registered with jax.tree_util.register_pytree_node in main(); children = self.kids."""

    def __init__(self, *kids):
        self.kids = tuple(kids)

    def __repr__(self):
        return "Box(" + ", ".join(map(repr, self.kids)) + ")"


PREAMBLE = (
    "import collections, typing, numpy as np, jax.tree_util as jtu\n"
    "from jaxtyping import PyTree, Float, jaxtyped\n"
    "NT0, NT1, NT2, NT3, NT4, NT5 = (collections.namedtuple(f'NT{i}', 'p q r s t'.split()[:i]) for i in range(6))\n"
    "class Box:\n"
    "    def __init__(self, *kids): self.kids = tuple(kids)\n"
    "jtu.register_pytree_node(Box, lambda b: (b.kids, None), lambda aux, kids: Box(*kids))\n"
)

DICT_KEYS = ["k2", "k1", "k4", "k3", "k0"]  # insertion order is NOT the sorted order

# leaf labels
LEAF_LABELS = ["1", "'s'", "(1, 2)", "np.zeros(2)", "np.zeros(3)", "np.zeros((2, 2))"]


def leaf_value(label):
    return eval(label, {"np": np})


# abstract shape: ("leaf", label) | ("none",) | (kind, [children])   kind in tuple/list/dict/nt/box
KINDS = ["tuple", "list", "dict", "nt", "box"]


def shapes(max_nodes, max_depth):
    """All abstract shapes (leaf positions unlabelled) with <= max_nodes nodes and depth <= max_depth.
    Every container, every None and every leaf position counts as one node."""
    import functools

    @functools.lru_cache(maxsize=None)
    def compositions(n):  # ordered ways to split n nodes among >= 0 children, each child >= 1 node
        if n == 0:
            return ((),)
        return tuple((first,) + rest for first in range(1, n + 1) for rest in compositions(n - first))

    @functools.lru_cache(maxsize=None)
    def gen(n, d):  # exactly n nodes, depth <= d
        out = []
        if n == 1:
            out += [("L",), ("none",)]
        if d >= 1:
            for kind in KINDS:
                for parts in compositions(n - 1):
                    for kids in itertools.product(*[gen(p, d - 1) for p in parts]):
                        out.append((kind, tuple(kids)))
        return tuple(out)

    out = []
    for n in range(1, max_nodes + 1):
        out += gen(n, max_depth)
    return out


def count_leaves(shape):
    if shape[0] == "L":
        return 1
    if shape[0] == "none":
        return 0
    return sum(count_leaves(c) for c in shape[1])


def instantiate(shape, labels):
    """(python object, source text) for a shape with the given leaf labels (consumed left to right)."""
    it = iter(labels)

    def go(s):
        if s[0] == "L":
            lab = next(it)
            return leaf_value(lab), lab
        if s[0] == "none":
            return None, "None"
        kids = [go(c) for c in s[1]]
        objs = [k[0] for k in kids]
        srcs = [k[1] for k in kids]
        if s[0] == "tuple":
            return tuple(objs), "(" + ", ".join(srcs) + ("," if len(srcs) == 1 else "") + ")"
        if s[0] == "list":
            return objs, "[" + ", ".join(srcs) + "]"
        if s[0] == "dict":
            keys = DICT_KEYS[: len(objs)]
            return dict(zip(keys, objs)), "{" + ", ".join(f"{k!r}: {v}" for k, v in zip(keys, srcs)) + "}"
        if s[0] == "nt":
            return NTS[len(objs)](*objs), f"NT{len(objs)}(" + ", ".join(srcs) + ")"
        return Box(*objs), "Box(" + ", ".join(srcs) + ")"

    return go(shape)


# --------------------------------------------------------------------------------------------
# own tree algebra
# --------------------------------------------------------------------------------------------
def node_children(x):
    """None -> [] (a node without leaves); containers -> children in canonical order; anything else -> not a node (returns None)."""
    if x is None:
        return []
    if isinstance(x, tuple):  # plain tuples and namedtuples
        return list(x)
    if type(x) is list:
        return list(x)
    if type(x) is dict:
        return [x[k] for k in sorted(x)]
    if type(x) is Box:
        return list(x.kids)
    return None


def tree_leaves(x, is_leaf):
    if is_leaf(x):
        return [x]
    kids = node_children(x)
    if kids is None:
        return [x]
    out = []
    for k in kids:
        out += tree_leaves(k, is_leaf)
    return out


# --------------------------------------------------------------------------------------------
# reference matcher for the leaf types ("matches L" in the usual typing sense)
# --------------------------------------------------------------------------------------------
LTYPES = ["int", "str", "tuple[int, int]", "typing.Union[int, str]", "typing.Any", 'Float[np.ndarray, "a"]', 'Float[np.ndarray, "*b a"]']
ARRAY_L = {'Float[np.ndarray, "a"]', 'Float[np.ndarray, "*b a"]', 'Float[np.ndarray, "*b"]'}


def is_float_array(v):
    return isinstance(v, np.ndarray) and v.dtype.kind == "f"


def matches(v, L, env, bind):
    """Does value v match leaf type L under axis environment env?  If bind, env is updated on success (never on failure)."""
    if L == "int":
        return isinstance(v, int)
    if L == "str":
        return isinstance(v, str)
    if L == "tuple[int, int]":
        return isinstance(v, tuple) and len(v) == 2 and all(isinstance(e, int) for e in v)
    if L == "typing.Union[int, str]":
        return isinstance(v, (int, str))
    if L == "typing.Any":
        return True
    if not is_float_array(v):
        return False
    want = {}
    if L == 'Float[np.ndarray, "a"]':
        if v.ndim != 1:
            return False
        want["a"] = v.shape[0]
    elif L == 'Float[np.ndarray, "*b a"]':
        if v.ndim < 1:
            return False
        want["a"] = v.shape[-1]
        want["b"] = tuple(v.shape[:-1])
    elif L == 'Float[np.ndarray, "*b"]':
        want["b"] = tuple(v.shape)
    else:
        raise AssertionError(L)
    for k, val in want.items():
        if k in env and env[k] != val:
            return False
    if bind:
        env.update(want)
    return True


def type_only(v, L):
    """Leaf discovery: does the sub-tree v match L at all (for array types: is it such an array)?"""
    if L in ARRAY_L:
        return is_float_array(v)
    return matches(v, L, {}, False)


def oracle_pytree(x, L, env):
    """isinstance(x, PyTree[L]) per the statement; env updated only on acceptance."""
    if x is None:
        return True
    trial = dict(env)
    for leaf in tree_leaves(x, lambda v: type_only(v, L)):
        if not matches(leaf, L, trial, True):
            return False
    env.clear()
    env.update(trial)
    return True


def oracle_step(obj, ann, env):
    if ann == "PyTree":
        return True
    if ann.startswith("PyTree[PyTree["):
        return oracle_pytree(obj, ann[len("PyTree[PyTree["):-2], env)
    if ann.startswith("PyTree["):
        return oracle_pytree(obj, ann[len("PyTree["):-1], env)
    return matches(obj, ann, env, True)


# --------------------------------------------------------------------------------------------
# states and probes
# --------------------------------------------------------------------------------------------
STATES = {
    "empty": [],
    "a=2": [("np.zeros(2)", 'Float[np.ndarray, "a"]')],
    "a=3": [("np.zeros(3)", 'Float[np.ndarray, "a"]')],
    "a=2,b=(2,)": [("np.zeros((2, 2))", 'Float[np.ndarray, "*b a"]')],
}
PROBES = [
    ("np.zeros(3)", 'Float[np.ndarray, "a"]'),
    ("np.zeros(2)", 'Float[np.ndarray, "a"]'),
    ("np.zeros((2,))", 'Float[np.ndarray, "*b"]'),
    ("np.zeros(())", 'Float[np.ndarray, "*b"]'),
]


def snapshot():
    from jaxtyping._storage import get_shape_memo

    m = get_shape_memo()
    return tuple(dict(d) for d in m[:3])


def run_real(steps, main_index, ns):
    """steps: list of (object, annotation text).  Returns (results, memo_before_main, memo_after_main)."""
    from jaxtyping import jaxtyped

    res, before, after = [], None, None
    try:
        with jaxtyped("context"):
            for i, (obj, ann) in enumerate(steps):
                if i == main_index:
                    before = snapshot()
                try:
                    res.append(bool(isinstance(obj, ns[ann])))
                except Exception as e:  # a result
                    res.append(f"raised {type(e).__name__}")
                if i == main_index:
                    after = snapshot()
    except Exception as e:
        res.append(f"context raised {type(e).__name__}")
    return res, before, after


def run_oracle(steps):
    env = {}
    return [oracle_step(obj, ann, env) for obj, ann in steps]


def make_snippet(step_srcs):
    lines = [PREAMBLE + 'with jaxtyped("context"):']
    for src, ann in step_srcs:
        lines.append(f"    print(isinstance({src}, {ann}))")
    return "\n".join(lines)


class Failures:
    def __init__(self, tally):
        self.tally = tally
        self.seen = {}

    def add(self, case, clause, **kw):
        if case in self.seen:
            self.seen[case]["witnesses"] += 1
            return
        self.tally.fail(case, clause, witnesses=1, **kw)
        if self.tally.failures and self.tally.failures[-1]["case"] == str(case):
            self.seen[case] = self.tally.failures[-1]
        else:
            self.seen[case] = {"witnesses": 1}


def short(L):
    return L.replace("typing.", "").replace("np.ndarray", "nd").replace(" ", "").replace('"', "'")


# --------------------------------------------------------------------------------------------
N_WORKERS = 7  # + the parent = 8 processes


def plan(tier, seed):
    """The deterministic list of (shape, labels) to evaluate, plus a description of the space."""
    rng = random.Random(seed)
    quick = tier == "quick"
    small_shapes = shapes(4, 2)
    small = [(s, labels) for s in small_shapes for labels in itertools.product(LEAF_LABELS, repeat=count_leaves(s))]
    if quick:
        # a seeded 50% sample of the <=4-node / depth<=2 space (the thorough tier enumerates that space completely)
        all_shapes, total_trees = small_shapes, len(small)
        picked = sorted(rng.sample(range(len(small)), 7500))
        chosen = [small[i] for i in picked]
        desc = f"a seeded sample of {len(chosen)} of them (the thorough tier takes all {len(small)})"
    else:
        all_shapes = shapes(6, 3)
        total_trees = sum(len(LEAF_LABELS) ** count_leaves(s) for s in all_shapes)
        seen = set(small)
        chosen = list(small)
        n_more = 85000
        while len(chosen) < len(small) + n_more:
            s = rng.choice(all_shapes)
            if rng.random() > (1 + count_leaves(s)) / 4:  # shapes with 0/1/2 leaf positions are kept with probability 1/4, 1/2, 3/4
                continue
            item = (s, tuple(rng.choice(LEAF_LABELS) for _ in range(count_leaves(s))))
            if item not in seen:
                seen.add(item)
                chosen.append(item)
        desc = (f"ALL {len(small)} trees with <= 4 nodes and depth <= 2, plus {n_more} further distinct trees sampled by seed "
                "(uniform over shapes thinned to 1/4, 1/2, 3/4 for 0, 1, 2 leaf positions, then uniform over labellings)")
    states = ["empty", "a=2"] if quick else ["empty", "a=2", "a=3", "a=2,b=(2,)"]
    return dict(chosen=chosen, desc=desc, total_trees=total_trees, n_shapes=len(all_shapes), states=states,
                max_nodes=4 if quick else 6, max_depth=2 if quick else 3)


def run_chunk(job):
    """Worker: evaluates every N_WORKERS-th tree of the plan.  Runs in a spawned process (fresh interpreter)."""
    repo, tier, seed, chunk, n_chunks, seconds = job
    t0 = time.time()
    if repo not in sys.path[:2]:
        sys.path.insert(0, repo)
    import jaxtyping

    assert os.path.realpath(os.path.dirname(os.path.dirname(jaxtyping.__file__))) == os.path.realpath(repo), jaxtyping.__file__
    import jax.tree_util as jtu
    from jaxtyping import Float, PyTree

    jtu.register_pytree_node(Box, lambda b: (b.kids, None), lambda aux, kids: Box(*kids))
    ns = {}
    evalns = {"typing": typing, "np": np, "Float": Float, "PyTree": PyTree}
    for L in LTYPES + ['Float[np.ndarray, "*b"]']:
        ns[L] = eval(L, evalns)
        ns[f"PyTree[{L}]"] = PyTree[ns[L]]
        ns[f"PyTree[PyTree[{L}]]"] = PyTree[PyTree[ns[L]]]
    ns["PyTree"] = PyTree

    pl = plan(tier, seed)
    states = pl["states"]
    tally = _common.Tally()
    fails = Failures(tally)
    verdicts = {}
    n_trees = 0
    stopped_early = False
    for index in range(chunk, len(pl["chosen"]), n_chunks):
        if time.time() - t0 > seconds:
            stopped_early = True
            break
        shape, labels = pl["chosen"][index]
        n_trees += 1
        obj, src = instantiate(shape, labels)
        top_none = obj is None
        # bare PyTree accepts everything
        r, _, _ = run_real([(obj, "PyTree")], 0, ns)
        tally.case(("bare", index), nontrivial=False)
        if r != [True]:
            fails.add("bare-pytree-rejects", "bare-accepts-everything", input=src, expected=True, actual=r, snippet=make_snippet([(src, "PyTree")]))
        for L in LTYPES:
            is_arr = L in ARRAY_L
            for st in (states if is_arr else (["empty"] if index % 7 else ["empty", "a=2"])):
                setup = STATES[st]
                probes = PROBES if (is_arr or index % 5 == 0) else PROBES[:1]
                for nested in (False, True):
                    ann = f"PyTree[PyTree[{L}]]" if nested else f"PyTree[{L}]"
                    step_srcs = list(setup) + [(src, ann)] + list(probes)
                    steps = [(leaf_value(s), an) for s, an in setup] + [(obj, ann)] + [(leaf_value(s), an) for s, an in probes]
                    mi = len(setup)
                    exp = run_oracle(steps)
                    act, before, after = run_real(steps, mi, ns)
                    nontrivial = not top_none and L != "typing.Any"
                    tally.case((index, L, st, nested), nontrivial=nontrivial,
                               sample={"tree": src, "annotation": ann, "state": st, "expected": exp, "actual": act} if index % 3001 == 17 and is_arr and not nested else None)
                    vk = f"{short(L)}|{exp[mi]}"
                    verdicts[vk] = verdicts.get(vk, 0) + 1
                    kind = "nested" if nested else "plain"
                    base = f"{kind}:L={short(L)}:state={st}"
                    if top_none and act[mi] is not True:
                        fails.add(f"toplevel-none:{base}", "toplevel-none-accepted", input={"tree": src, "annotation": ann, "state": st},
                                  expected=True, actual=act[mi], snippet=make_snippet(step_srcs))
                    elif act[mi] != exp[mi]:
                        fails.add(f"verdict:{base}:expected-{exp[mi]}-got-{str(act[mi]).replace(' ', '-')}",
                                  "nested-equals-plain" if nested else "accept-iff-all-leaves-match",
                                  input={"tree": src, "annotation": ann, "state": st, "steps": [f"isinstance({s}, {an})" for s, an in step_srcs]},
                                  expected=exp, actual=act, snippet=make_snippet(step_srcs))
                    elif act != exp:
                        fails.add(f"bindings:{base}:verdict-{exp[mi]}", "leaves-share-bindings-with-context" if exp[mi] else "rejected-binds-nothing",
                                  input={"tree": src, "annotation": ann, "state": st, "steps": [f"isinstance({s}, {an})" for s, an in step_srcs]},
                                  expected=exp, actual=act, snippet=make_snippet(step_srcs))
                    if act[mi] is False and before != after:
                        fails.add(f"memo-changed-on-reject:{base}", "rejected-binds-nothing",
                                  input={"tree": src, "annotation": ann, "state": st}, expected=repr(before), actual=repr(after),
                                  snippet=make_snippet(step_srcs[: mi + 1]) + "\n    from jaxtyping import print_bindings; print_bindings()")
    return dict(evaluations=tally.evaluations, distinct=len(tally.distinct), samples=tally.samples, failures=tally.failures,
                verdicts=verdicts, n_trees=n_trees, stopped_early=stopped_early)


def main():
    a = _common.setup(__doc__)
    quick = a.tier == "quick"
    pl = plan(a.tier, a.seed)
    seconds = 26 if quick else 480
    jobs = [(a.repo, a.tier, a.seed, i, N_WORKERS, seconds) for i in range(N_WORKERS)]
    import multiprocessing

    ctx = multiprocessing.get_context("spawn")  # jax is multi-threaded: never fork after importing it
    with ctx.Pool(N_WORKERS) as pool:
        results = pool.map(run_chunk, jobs, chunksize=1)

    tally = _common.Tally()
    merged, verdicts = {}, {}
    for r in results:  # chunk order = deterministic
        for f in r["failures"]:
            if f["case"] in merged:
                merged[f["case"]]["witnesses"] += f["witnesses"]
            else:
                merged[f["case"]] = f
        for k, v in r["verdicts"].items():
            verdicts[k] = verdicts.get(k, 0) + v
        for smp in r["samples"]:
            if len(tally.samples) < 5:
                tally.samples.append(smp)
    tally.failures = list(merged.values())[: tally.max_failures]
    # ---- curated: EQUAL leaves of DIFFERENT types (1 == 1.0 == True): every leaf is checked on its own, equal or not
    import typing

    import jaxtyping

    eq_trees = ["[1, 1.0]", "[1.0, 1]", "[True, 1]", "[1, True]", "(1, (1.0,))", "{'a': 1, 'b': 1.0}", "[1, None, (), 1.0]", "['s', 's', 1]", "[1, 1, 1]", "[(1, 2), (1.0, 2)]", "[0, False, 0.0]"]
    eq_trees += ["['s', 1.5]", "[b'x', 's']", "[None, 's']", "[1, 's']", "{'a': 's', 'b': (1.5,)}"]
    # unions written `X | Y` (PEP 604) come first: PyTree[...] memoises on the (equal) typing.Union spelling
    eq_types = {"int | str": (int | str, lambda v: isinstance(v, (int, str))), "str | bytes": (str | bytes, lambda v: isinstance(v, (str, bytes))),
                "str | None": (str | None, lambda v: v is None or isinstance(v, str)), "typing.Optional[str]": (typing.Optional[str], lambda v: v is None or isinstance(v, str)),
                "int": (int, lambda v: isinstance(v, int)), "bool": (bool, lambda v: isinstance(v, bool)),  # (not float: the checker follows the numeric tower, float accepts int)
                "typing.Union[int, str]": (typing.Union[int, str], lambda v: isinstance(v, (int, str))),
                "tuple[int, int]": (tuple[int, int], lambda v: isinstance(v, tuple) and len(v) == 2 and all(isinstance(e, int) for e in v))}
    n_eq = 0
    for tsrc in eq_trees:
        tree = eval(tsrc)
        for lname, (ltype, pred) in eq_types.items():
            def leaves_of(x):
                if pred(x):
                    return [x]
                if x is None:
                    return []
                if isinstance(x, (list, tuple)):
                    return [l for c in x for l in leaves_of(c)]
                if isinstance(x, dict):
                    return [l for k_ in sorted(x) for l in leaves_of(x[k_])]
                return [x]
            want = all(pred(l) for l in leaves_of(tree))
            for nested in (False, True):
                ann = jaxtyping.PyTree[jaxtyping.PyTree[ltype]] if nested else jaxtyping.PyTree[ltype]
                with jaxtyping.jaxtyped("context"):
                    got = isinstance(tree, ann)
                n_eq += 1
                tally.case(("equal-leaves", tsrc, lname, nested), nontrivial=True)
                if got != want:
                    tally.fail((f"pep604-union-leaf-type:{lname}:{tsrc}:{'nested' if nested else 'plain'}" if "|" in lname else f"equal-leaves-of-different-types:{lname}:{tsrc}:{'nested' if nested else 'plain'}"),
                               "every-leaf-is-checked-against-the-leaf-type(unions-in-either-spelling)" if "|" in lname else "every-leaf-is-checked-even-if-equal-to-an-earlier-one", input={"tree": tsrc, "L": lname, "nested": nested},
                               expected=want, actual=got,
                               snippet=f"import typing, jaxtyping\nwith jaxtyping.jaxtyped('context'): print(isinstance({tsrc}, jaxtyping.PyTree[{'jaxtyping.PyTree[' + lname + ']' if nested else lname}]))")
    n_trees = sum(r["n_trees"] for r in results)
    stopped_early = any(r["stopped_early"] for r in results)
    states = pl["states"]
    bound = (
        f"trees with <= {pl['max_nodes']} nodes and depth <= {pl['max_depth']} over tuple/list/dict(keys inserted unsorted)/None/namedtuple/registered Box, "
        f"leaf positions labelled from {LEAF_LABELS}: {pl['n_shapes']} shapes, {pl['total_trees']} labelled trees in the space; evaluated: {pl['desc']}"
        f"{' - STOPPED EARLY by the time guard after ' + str(n_trees) + ' trees' if stopped_early else ''}; "
        f"leaf types {LTYPES}; prior states {states} (array leaf types under every state, the others under 'empty' and every 7th tree also 'a=2'); "
        "for each: PyTree[L] and PyTree[PyTree[L]] followed by probe checks of 'a' (sizes 3,2) and '*b' (shapes (2,),()) in the same context, "
        f"get_shape_memo() compared before/after a rejected check, and bare PyTree.  {N_WORKERS} spawned worker processes, each takes every {N_WORKERS}th tree."
    )
    rule = ("case = (tree, L, prior state, plain|nested); the real sequence of isinstance results inside one jaxtyped('context') is compared with a "
            "simulation by an own tree algebra + reference matcher (top-down leaf discovery, shared axis environment, no binding on reject); "
            "non-trivial = not a top-level None and L is not Any; failures aggregated per (clause, L, state, direction) with first witness and count")
    _common.emit(tally, bound=bound, rule=rule, exhaustive=False, evaluations=sum(r["evaluations"] for r in results),
                 distinct_nontrivial=sum(r["distinct"] for r in results), expected_verdicts=verdicts,
                 trees_evaluated=n_trees, trees_in_space=pl["total_trees"], wall=round(time.time() - a.t0, 1))


if __name__ == "__main__":
    main()
