"""Unit U2: _MetaAbstractArray._check_shape against ShapeMatch (spec written from the C01 statement).

_check_dims is used BY CONTRACT (unit check_dims): uninterpreted CDv/CDm/CDd over (dims, shape, memo).
np.broadcast_shapes is an assumed external contract (BcOk/BcVal, symmetric), validated by a bounded stand-in.

Contract of _check_shape:
  requires  WellFormed(cls.dims, cls.index_variadic): iv None and no variadic element, or dims[iv] variadic and no other
            obj.shape is a tuple of ints (stable attribute)
  ensures   result == "" <=> SpecV == 0 ; result != "" => SpecV == 1
            result == "" => single_memo' == Spec.sigma  /\\  variadic_memo' == Spec.nu
  raises    AnnotationError <=> SpecV == 2 ; eval class c <=> SpecV == 100+tag(c) ; nothing else
  modifies  single_memo, variadic_memo only
"""
from __future__ import annotations

import ast

import z3

from ..engine import Raised, TupleSort, is_raised
from ..source import Module
from ..spec import c01
from ..values import NORMAL, BOOL, INT, NONE, STR, U, DictObj, Exc, Fn, Obj, Opaque, Outcome, Ref, State, Tup, Unsupported, Z
from . import arrays_common as AC

NAME = "check_shape"
FUNC = "_MetaAbstractArray._check_shape"

SEQI = z3.SeqSort(INT)
VarEntry = z3.Datatype("VarEntry")
VarEntry.declare("mk_var", ("var_b", BOOL), ("var_shape", SEQI))
VarEntry = VarEntry.create()
VMEMO_M = z3.ArraySort(STR, VarEntry)
VMEMO_D = z3.ArraySort(STR, BOOL)

BcOk = z3.Function("BcOk", SEQI, SEQI, BOOL)
BcVal = z3.Function("BcVal", SEQI, SEQI, SEQI)


def cd_functions(dt):
    SD = z3.SeqSort(dt.sort)
    CDv = z3.Function("CDv", SD, SEQI, AC.MEMO_M, AC.MEMO_D, INT)
    CDm = z3.Function("CDm", SD, SEQI, AC.MEMO_M, AC.MEMO_D, AC.MEMO_M)
    CDd = z3.Function("CDd", SD, SEQI, AC.MEMO_M, AC.MEMO_D, AC.MEMO_D)
    return CDv, CDm, CDd


def extract_offset(t, base):
    """offset of slice term t within base (t is base itself or Extract(base, off, len))."""
    if t.eq(base):
        return z3.IntVal(0)
    if z3.is_app(t) and t.decl().kind() == z3.Z3_OP_SEQ_EXTRACT and t.arg(0).eq(base):
        return t.arg(1)
    if z3.is_app(t) and t.decl().kind() == z3.Z3_OP_SEQ_EMPTY:
        return z3.IntVal(0)
    return None


def make_check_dims_model(eng, dt, dims, wf_instance, CD, cls_index):
    CDv, CDm, CDd = CD

    def model(eng, st, args, kwargs, node):
        if len(args) != 4 or kwargs:
            raise Unsupported("_check_dims call shape")
        D, S, memo, argm = args
        if not (isinstance(D, Z) and D.kind == "seq:dim" and isinstance(S, Z) and S.kind == "seq:int" and isinstance(memo, Ref)):
            raise Unsupported(f"_check_dims args {args}")
        # ---- callee preconditions are obligations at the call site
        eng.oblige(st, "call:_check_dims:requires-len-equal", z3.Length(D.t) == z3.Length(S.t))
        off = extract_offset(D.t, dims)
        j0 = z3.FreshConst(INT, "j0")
        s_pre = st.fork(z3.And(0 <= j0, j0 < z3.Length(D.t)))
        if off is not None:
            s_pre = s_pre.fork(z3.And(wf_instance(off + j0), z3.Implies(z3.And(0 <= j0, j0 < z3.Length(D.t)), D.t[j0] == dims[off + j0]) if False else z3.BoolVal(True)))
            s_pre.pc.append(wf_instance(off + j0))
        eng.oblige(s_pre, "call:_check_dims:requires-no-variadic", z3.Not(AC.is_variadic(dt, D.t[j0])))
        o = st.get(memo)
        v = CDv(D.t, S.t, o.m, o.d)
        outs = []
        # accept
        a = st.fork(v == 0, "cd:accept")
        a.put(memo, DictObj(STR, INT, CDm(D.t, S.t, o.m, o.d), CDd(D.t, S.t, o.m, o.d), "single_memo"))
        outs.append((a, Z("str", z3.StringVal(""))))
        # reject (partial progress possible: memo havocked)
        r = st.fork(v == 1, "cd:reject")
        r.put(memo, DictObj(STR, INT, tag="single_memo_partial"))
        msg = z3.FreshConst(STR, "cd_msg")
        r.pc.append(z3.Length(msg) > 0)
        outs.append((r, Z("str", msg)))
        # AnnotationError
        e = st.fork(v == 2, "cd:AnnotationError")
        e.put(memo, DictObj(STR, INT, tag="single_memo_partial"))
        outs.append((e, Raised(Exc("AnnotationError", origin="_check_dims"))))
        for c, idx in cls_index.items():
            x = st.fork(v == 100 + idx, f"cd:raises {c}")
            x.put(memo, DictObj(STR, INT, tag="single_memo_partial"))
            outs.append((x, Raised(Exc(c, origin="eval"))))
        # totality of the verdict codes (established by unit check_dims: these are the only outcomes)
        codes = z3.Or(v == 0, v == 1, v == 2, *[v == 100 + i for i in cls_index.values()])
        for s1, _ in outs:
            s1.pc.append(codes)
        return [(s1, x) for s1, x in outs if eng.feasible(s1.pc)]

    return model


def model_broadcast_shapes(eng, st, args, kwargs, node):
    a, b = args
    if not all(isinstance(x, Z) and x.kind == "seq:int" for x in (a, b)):
        raise Unsupported("broadcast_shapes args")
    sym = z3.And(BcOk(a.t, b.t) == BcOk(b.t, a.t), BcVal(a.t, b.t) == BcVal(b.t, a.t))
    ok = st.fork(z3.And(BcOk(a.t, b.t), sym), "bc:ok")
    bad = st.fork(z3.And(z3.Not(BcOk(a.t, b.t)), sym), "bc:ValueError")
    return [(ok, Z("seq:int", BcVal(a.t, b.t))), (bad, Raised(Exc("ValueError", origin="np.broadcast_shapes")))]


def build(repo=None):
    mod = Module("jaxtyping/_array_types.py", repo)
    fn = mod.func(FUNC)
    eng = AC.arrays_engine(mod)

    def ill_typed(e, s, sort, kind, v):
        # data-structure invariant of the multi-axis memo: a binding is an immutable (broadcastable-flag, shape-tuple) pair. The rollback
        # snapshots are shallow dict copies -- they only protect the context because the stored values cannot be mutated in place.
        e.oblige(s, "C01:memo-typing:multi-axis-bindings-are-immutable-(flag,-shape)-pairs(nothing-else-is-stored)", z3.BoolVal(False))
        return z3.FreshConst(sort, "ill_typed_store")

    eng.method_models["__ill_typed_store__"] = ill_typed

    def slice_store(e, s, cont, v, node):
        # `binding[:] = ...` on something fetched from a memo: bindings are immutable pairs (see above); whatever is mutated here in place
        # is shared with every snapshot taken before
        e.oblige(s, "C01:memo-typing:multi-axis-bindings-are-immutable-(flag,-shape)-pairs(nothing-else-is-stored)", z3.BoolVal(False))
        return [(s, NORMAL)]

    eng.method_models["__slice_store__"] = slice_store
    dt = eng.datatypes["dim"]
    ops = AC.Z3Ops(dt)
    eng.tuple_sorts["varentry"] = TupleSort("varentry", VarEntry, VarEntry.mk_var, [VarEntry.var_b, VarEntry.var_shape], ["bool", "seq:int"])
    params = [a.arg for a in fn.args.args]
    if len(params) != 5:
        raise Unsupported(f"{FUNC}: unexpected signature {params}")
    p_cls, p_obj, p_sm, p_vm, p_am = params

    dims = z3.Const("dims", z3.SeqSort(dt.sort))
    shape = z3.Const("shape", SEQI)
    n, r = z3.Length(dims), z3.Length(shape)
    iv = z3.Int("iv")
    m0, d0 = z3.Const("m0", AC.MEMO_M), z3.Const("d0", AC.MEMO_D)
    vm0, vd0 = z3.Const("vm0", VMEMO_M), z3.Const("vd0", VMEMO_D)
    CD = cd_functions(dt)
    CDv, CDm, CDd = CD
    cls_index = {c: 2 + i for i, c in enumerate(AC.EVAL_OTHER)}

    # ------------------------------------------------------------------ the spec
    def spec(iv_none):
        if iv_none:
            V = z3.If(r != n, z3.IntVal(1), CDv(dims, shape, m0, d0))
            return V, (CDm(dims, shape, m0, d0), CDd(dims, shape, m0, d0)), (vm0, vd0)
        c = n - iv - 1
        PD, P = z3.Extract(dims, 0, iv), z3.Extract(shape, 0, iv)
        vP = CDv(PD, P, m0, d0)
        m1, d1 = CDm(PD, P, m0, d0), CDd(PD, P, m0, d0)
        SD, S = z3.Extract(dims, iv + 1, c), z3.Extract(shape, r - c, c)
        vS = z3.If(c == 0, z3.IntVal(0), CDv(SD, S, m1, d1))
        m2 = z3.If(c == 0, m1, CDm(SD, S, m1, d1))
        d2 = z3.If(c == 0, d1, CDd(SD, S, m1, d1))
        Mid = z3.Extract(shape, iv, r - (n - 1))
        dv = dims[iv]
        anonvar = dt.is_cls(dv, "_anonymous_variadic_dim")
        name = dt.field(dv, "_NamedVariadicDim", "name")
        b = dt.field(dv, "_NamedVariadicDim", "broadcastable")
        tp = dt.field(dv, "_NamedVariadicDim", "treepath")
        key = z3.If(tp, z3.Concat(AC.Label, name), name)
        nolabel = z3.And(tp, z3.Not(AC.HasLabel))
        has_prev = vd0[key]
        pb, Pshape = VarEntry.var_b(vm0[key]), VarEntry.var_shape(vm0[key])
        accept, store, nb, nshape = c01.variadic_step(ops, b, Mid, has_prev, pb, Pshape, BcOk(Mid, Pshape), BcVal(Mid, Pshape))
        var_v = z3.If(anonvar, 0, z3.If(nolabel, 2, z3.If(accept, 0, 1)))
        V = z3.If(r < n - 1, 1, z3.If(vP != 0, vP, z3.If(vS != 0, vS, var_v)))
        do_store = z3.And(z3.Not(anonvar), store)
        nu_m = z3.If(do_store, z3.Store(vm0, key, VarEntry.mk_var(nb, nshape)), vm0)
        nu_d = z3.If(do_store, z3.Store(vd0, key, z3.BoolVal(True)), vd0)
        return V, (m2, d2), (nu_m, nu_d)

    obligations = []
    paths = 0
    stats = {}
    for iv_none in (True, False):
        if iv_none:
            wf_instance = lambda j: z3.Implies(z3.And(0 <= j, j < n), z3.Not(AC.is_variadic(dt, dims[j])))
            wf_pre = []
        else:
            wf_instance = lambda j: z3.Implies(z3.And(0 <= j, j < n, j != iv), z3.Not(AC.is_variadic(dt, dims[j])))
            wf_pre = [0 <= iv, iv < n, AC.is_variadic(dt, dims[iv])]
        eng.globals["_check_dims"] = Fn("_check_dims", model=make_check_dims_model(eng, dt, dims, wf_instance, CD, cls_index))
        eng.globals["np.broadcast_shapes"] = Fn("np.broadcast_shapes", model=model_broadcast_shapes)
        st = State()
        sm = st.alloc(DictObj(STR, INT, m0, d0, "single_memo"))
        vm = st.alloc(DictObj(STR, VarEntry, vm0, vd0, "variadic_memo"))
        am = st.alloc(DictObj(STR, U, tag="arg_memo"))
        am0 = st.get(am)
        cls = st.alloc(Obj("annotation-class", {"index_variadic": NONE if iv_none else Z("int", iv), "dims": Z("seq:dim", dims)}, tag="cls"))
        cls0 = st.get(cls)
        obj = Opaque("obj", attrs={"shape": Z("seq:int", shape)})
        st.env = {p_cls: cls, p_obj: obj, p_sm: sm, p_vm: vm, p_am: am}
        st.pc = list(wf_pre)
        st.path = ["iv=None" if iv_none else "iv=int"]
        V, (sig_m, sig_d), (nu_m, nu_d) = spec(iv_none)
        outcomes = eng.run(fn.body, st)
        paths += len(outcomes)
        meta = dict(dims=dims, shape=shape, iv=iv if not iv_none else z3.IntVal(-1), spec_v=V, has_label=AC.HasLabel, label=AC.Label)
        for s1, o in outcomes:
            if s1.get(am) is not am0 or s1.get(cls) is not cls0:
                eng.oblige(s1, "modifies:only-the-two-memos", z3.BoolVal(False))
            sm1, vm1 = s1.get(sm), s1.get(vm)
            if o.kind == "return":
                v = o.val
                if not (isinstance(v, Z) and v.kind == "str"):
                    eng.oblige(s1, "ensures:result-is-str", z3.BoolVal(False))
                    continue
                empty = v.t == z3.StringVal("")
                eng.oblige(s1, "ensures:result-empty-iff-spec-accepts", empty == (V == 0), **meta)
                eng.oblige(s1, "ensures:nonempty-result-implies-spec-rejects", z3.Implies(z3.Not(empty), V == 1), **meta)
                eng.oblige(s1, "ensures:accept-implies-single-memo-is-spec", z3.Implies(empty, z3.And(sm1.m == sig_m, sm1.d == sig_d)), **meta)
                eng.oblige(s1, "ensures:accept-implies-variadic-memo-is-spec", z3.Implies(empty, z3.And(vm1.m == nu_m, vm1.d == nu_d)), **meta)
            elif o.kind == "raise":
                e = o.val
                if e.origin == "eval" and e.cls in cls_index:
                    eng.oblige(s1, "raises:eval-exception-propagates-as-spec-says", V == 100 + cls_index[e.cls], **meta)
                elif e.cls == "AnnotationError":
                    eng.oblige(s1, "raises:AnnotationError-iff-spec-says-so", V == 2, **meta)
                else:
                    eng.oblige(s1, f"raises:no-other-exception[{e.cls} from {e.origin}]", z3.BoolVal(False), **meta)
            elif o.kind == "normal":
                eng.oblige(s1, "ensures:function-returns-a-value", z3.BoolVal(False))
            else:
                raise Unsupported(f"outcome {o.kind}")
        obligations.extend(st.obl)
        obligations.append({"clause": f"canary:preconditions-satisfiable[{'iv=None' if iv_none else 'iv=int'}]", "kind": "canary", "pc": list(wf_pre) + [n >= 1], "goal": z3.BoolVal(False), "path": [], "meta": {}})
        stats = dict(eng.stats)

    out = []
    for ob in obligations:
        ob = dict(ob)
        ob.setdefault("kind", "vc")
        ob["function"] = FUNC
        out.append(ob)
    return {
        "unit": NAME,
        "functions": [{"qualname": f"jaxtyping._array_types.{FUNC}", "sha256_16": mod.sha(fn), "lines": [fn.lineno, fn.end_lineno]}],
        "obligations": out,
        "paths": paths,
        "stats": stats,
        "assumptions": [
            "_check_dims used by its contract (unit check_dims): verdict/memo are functions CDv/CDm/CDd of (dims, shape, memo); rejects/raises may leave partial bindings",
            "numpy.broadcast_shapes: BcOk/BcVal uninterpreted, symmetric; raises ValueError iff not BcOk (external contract T5, bounded validator b01)",
            "obj.shape is a tuple of ints, stable within one check (assumption on user array types)",
        ],
    }
