import warnings, numpy as np
warnings.simplefilter("ignore")
import jax, jax.numpy as jnp, jax.tree_util as jtu
import typeguard, beartype
from jaxtyping import *
from jaxtyping import jaxtyped, PyTree, print_bindings
def t(label, f):
    try: print(label, "->", f())
    except BaseException as e: print(label, "-> RAISED", type(e).__name__, str(e)[:100].replace("\n"," | "))
def ctx(*checks):
    def run():
        out=[]
        with jaxtyped("context"):
            for v, ann in checks:
                out.append(isinstance(v, ann))
        return out
    return run
I = PyTree[int, "T"]
t("T bind/compare same", ctx(((1,2), I), ((3,4), I)))
t("T bind/compare differ", ctx(((1,2), I), ([3,4], I)))
t("prefix ok", ctx(((1,2), I), (((1,1),(2,2,2)), PyTree[int,"T ..."])))
t("prefix T itself", ctx(((1,2), I), ((1,2), PyTree[int,"T ..."])))
t("prefix bad", ctx(((1,2), I), ((1,2,3), PyTree[int,"T ..."])))
t("suffix ok", ctx(((1,2), I), ({"a":(1,2),"b":[(3,4)]}, PyTree[int,"... T"])))
t("suffix T itself", ctx(((1,2), I), ((1,2), PyTree[int,"... T"])))
t("suffix bad", ctx(((1,2), I), ({"a":(1,2),"b":3}, PyTree[int,"... T"])))
t("suffix empty container", ctx(((1,2), I), ((), PyTree[int,"... T"])))
t("suffix with empty sub", ctx(((1,2), I), ([(1,2), ()], PyTree[int,"... T"])))
t("suffix None", ctx(((1,2), I), ([(1,2), None], PyTree[int,"... T"])))
t("compose", ctx(((1,2), I), ({"k":3}, PyTree[int,"S"]), ({"k":(4,5)}, PyTree[int,"S T"]), ({"k":(4,5)}, PyTree[int,"T S"])))
t("compose unbound", ctx(((1,2), I), ({"k":(4,5)}, PyTree[int,"S T"])))
t("T leaf structure: suffix", ctx((1, I), ((1,2,{"a":3}), PyTree[int,"... T"])))
t("T=() empty", ctx(((), I), ((), I), ([], I)))
t("nested equiv", ctx(((np.zeros(3),(np.zeros(3),)), PyTree[Float[np.ndarray,"a"]]), ((np.zeros(3),(np.zeros(3),)), PyTree[PyTree[Float[np.ndarray,"a"]]])))
t("nested equiv bad", ctx(((np.zeros(3),(np.zeros(4),)), PyTree[Float[np.ndarray,"a"]])))
t("nested equiv bad2", ctx(((np.zeros(3),(np.zeros(4),)), PyTree[PyTree[Float[np.ndarray,"a"]]])))
def binds():
    with jaxtyped("context"):
        r = isinstance((np.zeros(3),(np.zeros(4),)), PyTree[PyTree[Float[np.ndarray,"a"]]])
        print_bindings()
        return r
t("nested rejected binds nothing", binds)
t("top-level None", ctx((None, PyTree[int]), (None, PyTree[int,"T"]), ((1,2), PyTree[int,"T"]), ([1], PyTree[int,"T"])))
t("tuple leaf", ctx((((1,2),(3,4)), PyTree[tuple[int,int]]), (((1,2),(3,"a")), PyTree[tuple[int,int]]), ((1,2), PyTree[tuple[int,int]])))
# flatten flag after exception in custom flatten
class Bad: pass
def _fl(x): raise RuntimeError("boom")
jtu.register_pytree_node(Bad, _fl, lambda a,c: Bad())
from jaxtyping._storage import get_treeflatten_memo
t("raise in flatten", lambda: isinstance((Bad(),), PyTree[Float[np.ndarray,"a"]]))
print("flag after:", get_treeflatten_memo(), isinstance(np.zeros(3, dtype=np.int32), Float[np.ndarray, "a"]))
