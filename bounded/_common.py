"""Shared plumbing for bounded stand-ins (run under /venv/bin/python with PYTHONPATH=<repo>:/verif).
A stand-in enumerates a stated finite space, runs the REAL jaxtyping code on each case and compares
with an independent oracle written from the property statement. It never counts as proved."""
import argparse, json, os, sys, time, random


def setup(description=""):
    ap = argparse.ArgumentParser(description=description)
    ap.add_argument("--tier", default="quick", choices=["quick", "thorough"])
    ap.add_argument("--seed", type=int, default=0)
    ap.add_argument("--repo", default="/repo")
    a, _ = ap.parse_known_args()
    random.seed(a.seed)
    # make sure the code under test is the tree we were pointed at
    if a.repo not in sys.path[:2]:
        sys.path.insert(0, a.repo)
    import jaxtyping
    real = os.path.realpath(os.path.dirname(os.path.dirname(jaxtyping.__file__)))
    if real != os.path.realpath(a.repo):
        emit(status="crash", error=f"jaxtyping imported from {real}, expected {a.repo}")
        sys.exit(0)
    a.t0 = time.time()
    return a


class Tally:
    def __init__(self, max_failures=40):
        self.evaluations = 0
        self.distinct = set()
        self.samples = []
        self.failures = []
        self.max_failures = max_failures

    def case(self, key, nontrivial=True, sample=None):
        self.evaluations += 1
        if nontrivial:
            self.distinct.add(key)
        if sample is not None and len(self.samples) < 5:
            self.samples.append(sample)

    def fail(self, case, clause, **kw):
        if len(self.failures) < self.max_failures:
            d = {"case": str(case), "clause": clause}
            d.update({k: (v if isinstance(v, (int, float, str, bool, type(None), list, dict)) else repr(v)) for k, v in kw.items()})
            self.failures.append(d)


def emit(tally=None, **kw):
    out = {"status": "ok"}
    if tally is not None:
        out.update(evaluations=tally.evaluations, distinct_nontrivial=len(tally.distinct), samples=tally.samples, failures=tally.failures)
    out.update(kw)
    sys.stdout.flush()
    print(json.dumps(out, default=repr))
    sys.stdout.flush()
