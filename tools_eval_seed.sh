#!/bin/bash
# tools_eval_seed.sh C07 m1 [extra property ids...]  : confirm a seeded change and run my checks against it (in the scratch worktree)
P=$1; M=$2; shift 2; EXTRA="$@"
WT=/tmp/wt/$P; D=${SEED_ROOT:-/tmp/wt-out}/$P/$M; O=$D/eval; mkdir -p $O
git -C $WT checkout -q -- . ; git -C $WT clean -fdq
( cd $WT && PYTHONPATH=$WT JAX_PLATFORMS=cpu timeout 600 /venv/bin/python $D/demo.py > $O/demo_clean.out 2>&1 ); echo "demo_clean_rc=$?" > $O/summary
if ! git -C $WT apply $D/patch.diff 2> $O/apply.err; then echo "apply=FAILED" >> $O/summary; cat $O/summary; exit 0; fi
( cd $WT && PYTHONPATH=$WT JAX_PLATFORMS=cpu timeout 600 /venv/bin/python $D/demo.py > $O/demo_mut.out 2>&1 ); echo "demo_mut_rc=$?" >> $O/summary
( cd $WT && PYTHONPATH=$WT timeout 1500 /venv/bin/python -m pytest -q -p no:cacheprovider --timeout=900 --deselect test/test_decorator.py::test_mlx 2>&1 | tail -40 > $O/pytest_tail.out ); grep -E "^(FAILED|ERROR)" $O/pytest_tail.out | sort > $O/pytest_failed.out; echo "pytest=$(grep -E '[0-9]+ passed' $O/pytest_tail.out | tail -1) | failing: $(cut -d' ' -f2 $O/pytest_failed.out | tr '\n' ' ')" >> $O/summary
for Q in $P $EXTRA; do
  ( cd /verif && VERIF_OUT=$O VERIF_REPO=$WT timeout 1500 ./check $Q --tier quick --repo $WT > $O/check_$Q.out 2>&1 ); rc=$?
  echo "check_$Q rc=$rc $(grep -c '^VIOLATION' $O/check_$Q.out) violation-lines; first: $(grep -m1 '^VIOLATION\|^UNDECIDED\|^CHECKER' $O/check_$Q.out | cut -c1-220)" >> $O/summary
done
git -C $WT checkout -q -- . ; git -C $WT clean -fdq
cat $O/summary
