#!/usr/bin/env python
"""b12_histories.py -- bounded stand-in for property C12.

C12: the verdict of a check depends only on the value, the annotation and the current context's
bindings -- never on earlier, unrelated activity in the process.

What is enumerated
------------------
A catalogue of public-API operations (passing / failing / raising array and PyTree checks, single
faults injected at every place where jaxtyping calls out into user or third-party code, decorations
that mention a shared annotation object `Vec`, pickling, import-hook installation).  Every history
(= sequence of 1..k catalogue operations) is executed in three placements

    top : operations and probes at module level (no jaxtyping context at all)
    ctx : operations and probes inside ONE `with jaxtyped("context"):` block
    fn  : operations and probes inside the body of ONE `@jaxtyped(typechecker=typechecked)` function

and is followed by a fixed vector of PROBE checks plus direct observations of jaxtyping's transient
state.  The oracle is a hard-coded truth table derived from /repo/docs and the property statement
(what each probe must answer in a pristine process) plus a tiny model of the context's bindings
("only checks that pass contribute to the store of values").  Nothing of the code under test is used
to compute an expected value.  The outcome of a *faulted* operation itself is not judged (the
statement is silent on whether the injected exception propagates or is translated); only what can
be observed afterwards is.

Isolation: histories run in forked worker processes (fresh fork of the never-checking parent per
chunk); every history builds fresh annotation objects whose axis / structure names carry a
per-history suffix, so neither a mutated annotation class nor a construction cache can leak from
one history into the next; a worker that observes corrupted process-global state after a history
stops and the remainder of its chunk is re-run in a fresh fork.
"""
import sys, os, io, re, ast, json, time, types, pickle, random, warnings, contextlib, itertools
import tempfile, shutil, dataclasses, asyncio, select, signal, traceback

sys.dont_write_bytecode = True  # never leave __pycache__ behind in /verif
sys.path.insert(0, os.path.dirname(os.path.abspath(__file__)))
import _common  # noqa: E402

os.environ.setdefault("JAX_PLATFORMS", "cpu")
ARGS = _common.setup("C12 bounded stand-in: verdicts never depend on earlier unrelated activity")
warnings.simplefilter("ignore")

from typing import Any, Iterator, AsyncIterator, Optional, Union  # noqa: E402

import numpy as np  # noqa: E402
import jax.tree_util as jtu  # noqa: E402
import jaxtyping  # noqa: E402
from jaxtyping import (  # noqa: E402
    AbstractDtype, Float, PyTree, jaxtyped, print_bindings, install_import_hook,
)
from jaxtyping import _storage  # noqa: E402
from typeguard import typechecked as tg  # noqa: E402
from beartype import beartype as bt  # noqa: E402
import cloudpickle  # noqa: E402

try:  # jaxtyping imports equinox lazily when it formats its first error message; pay for that once, before forking
    import equinox  # noqa: E402,F401
except Exception:  # pragma: no cover
    pass


# --------------------------------------------------------------------------------------------
# helpers that play the role of "user or third-party code"
# --------------------------------------------------------------------------------------------
class UserErr(Exception):
    pass


class UserBase(BaseException):
    pass


FAULT_CLASSES = {"exc": UserErr, "kbi": KeyboardInterrupt, "base": UserBase}
FIRED = [0]  # number of injected faults that were actually raised (per operation, reset by run_op)


def inject(exc):
    FIRED[0] += 1
    raise exc("injected fault")


class Trigger:
    """raises `exc` at the `at`-th hit"""

    def __init__(self, exc=None, at=0):
        self.exc, self.at, self.n = exc, at, 0

    def hit(self):
        self.n += 1
        if self.exc is not None and self.n == self.at:
            inject(self.exc)


NOTRIG = Trigger()


def z(*s):
    return np.zeros(s)


def zi(*s):
    return np.zeros(s, dtype=int)


class DuckDtype(AbstractDtype):  # docs/api/array.md "Duck-type arrays"
    dtypes = ["duck"]


class Duck:
    def __init__(self, shape, st=NOTRIG, dt=NOTRIG):
        self._shape, self._st, self._dt = tuple(shape), st, dt

    @property
    def shape(self):
        self._st.hit()
        return self._shape

    @property
    def dtype(self):
        self._dt.hit()
        return "duck"

    def __repr__(self):
        return "Duck%r" % (self._shape,)


# `{expr}` hook reachable from a dim string evaluated with an empty argument dict
_hook = types.ModuleType("_b12hook")
_hook.exc = None


def _boom():
    inject(_hook.exc)


_hook.boom = _boom
sys.modules["_b12hook"] = _hook


class PropBomb:
    def __init__(self, exc):
        self.exc = exc

    @property
    def v(self):
        inject(self.exc)


class BombNode:  # custom PyTree node whose flatten raises
    def __init__(self, exc):
        self.exc = exc


def _bomb_flatten(b):
    inject(b.exc)


jtu.register_pytree_node(BombNode, _bomb_flatten, lambda aux, ch: BombNode(None))


class UNode:  # custom PyTree node whose unflatten raises when armed
    armed = None

    def __init__(self, x):
        self.x = x


def _unode_unflatten(aux, children):
    if UNode.armed is not None:
        inject(UNode.armed)
    return UNode(children[0])


jtu.register_pytree_node(UNode, lambda u: ((u.x,), None), _unode_unflatten)


class LeafObj:
    pass


def make_leaf_type(exc, at):
    trig = Trigger(exc, at)

    class M(type):
        def __instancecheck__(cls, obj):
            trig.hit()
            return type(obj) is LeafObj

    class LeafT(metaclass=M):
        pass

    return LeafT


def make_array_type(exc):
    class M(type):
        def __instancecheck__(cls, obj):
            inject(exc)

    class ArrT(metaclass=M):
        pass

    return ArrT


class BadRepr:
    def __init__(self, exc):
        self.exc = exc

    def __repr__(self):
        inject(self.exc)


def norm(v):
    if isinstance(v, (tuple, list)):
        return [norm(x) for x in v]
    if isinstance(v, dict):
        return {str(k): norm(x) for k, x in v.items()}
    if isinstance(v, (bool, int, str, type(None))):
        return v
    if isinstance(v, np.generic):
        return v.item()
    return repr(v)


def T(thunk):
    """value of thunk(), or '!ExcName' -- exceptions of the code under test are results"""
    try:
        return norm(thunk())
    except BaseException as e:  # noqa: BLE001
        return "!" + type(e).__name__


def capture_print_bindings():
    buf = io.StringIO()
    with contextlib.redirect_stdout(buf):
        print_bindings()
    return buf.getvalue()


# --------------------------------------------------------------------------------------------
# per-history world: fresh annotation objects, names suffixed with the history tag
# --------------------------------------------------------------------------------------------
class World:
    def __init__(self, tag):
        self.t = tag
        self.Vec = Float[np.ndarray, "v" + tag]


class Op:
    def __init__(self, name, fn, expect=None, binds=None, src="", tags=()):
        self.name, self.fn, self.expect, self.binds, self.src, self.tags = name, fn, expect, binds, src, set(tags)
        self.is_fault = "fault" in self.tags


OPS = []


def op(name, expect=None, binds=None, src="", tags=()):
    def deco(fn):
        OPS.append(Op(name, fn, expect, binds, src.strip("\n"), tags))
        return fn

    return deco


def const(v):
    return lambda W: v


# ---- plain array checks ---------------------------------------------------------------------
@op("arr-pass", expect=const(True), binds=lambda W: {"p" + W.t: 3, "q" + W.t: 4},
    src='isinstance(np.zeros((3, 4)), Float[np.ndarray, "p q"])')
def _(W):
    return isinstance(z(3, 4), Float[np.ndarray, f"p{W.t} q{W.t}"])


@op("arr-pass-vec", expect=const(True), binds=lambda W: {"v" + W.t: 5}, src="isinstance(np.zeros(5), Vec)")
def _(W):
    return isinstance(z(5), W.Vec)


@op("arr-pass-variadic", expect=const(True), binds=lambda W: {"p" + W.t: 3, "w" + W.t: (1,), "q" + W.t: 4},
    src='isinstance(np.zeros((3, 1, 4)), Float[np.ndarray, "p *w #q"])')
def _(W):
    return isinstance(z(3, 1, 4), Float[np.ndarray, f"p{W.t} *w{W.t} #q{W.t}"])


@op("arr-pass-duck", expect=const(True), binds=lambda W: {"p" + W.t: 3, "q" + W.t: 4},
    src='isinstance(Duck((3, 4)), DuckDtype[Duck, "p q"])')
def _(W):
    return isinstance(Duck((3, 4)), DuckDtype[Duck, f"p{W.t} q{W.t}"])


@op("arr-fail-dtype", expect=const(False), src='isinstance(np.zeros(7, int), Float[np.ndarray, "a"])')
def _(W):
    return isinstance(zi(7), Float[np.ndarray, f"a{W.t}"])


@op("arr-fail-shape", expect=const(False), src='isinstance(np.zeros((7, 9)), Float[np.ndarray, "a a"])')
def _(W):
    return isinstance(z(7, 9), Float[np.ndarray, f"a{W.t} a{W.t}"])


@op("arr-fail-variadic", expect=const(False), src='isinstance(np.zeros((7, 1, 9)), Float[np.ndarray, "a *b a"])')
def _(W):
    return isinstance(z(7, 1, 9), Float[np.ndarray, f"a{W.t} *b{W.t} a{W.t}"])


@op("arr-fail-vec", expect=const([False, False]),
    src="isinstance(np.zeros(5, int), Vec); isinstance(np.zeros((7, 7)), Vec)")
def _(W):
    return [isinstance(zi(5), W.Vec), isinstance(z(7, 7), W.Vec)]


@op("arr-raise-qmark", expect=const("!AnnotationError"), src='isinstance(np.zeros(7), Float[np.ndarray, "?a"])')
def _(W):
    return isinstance(z(7), Float[np.ndarray, f"?a{W.t}"])


@op("arr-raise-unbound-symbolic", expect=const("!AnnotationError"),
    src='isinstance(np.zeros((7, 8)), Float[np.ndarray, "a zzz+1"])')
def _(W):
    return isinstance(z(7, 8), Float[np.ndarray, f"a{W.t} zzz{W.t}+1"])


@op("arr-raise-symbolic-zerodiv", src='isinstance(np.zeros((7, 8)), Float[np.ndarray, "a 1//0"])', tags=("raises",))
def _(W):
    return isinstance(z(7, 8), Float[np.ndarray, f"a{W.t} 1//0"])


@op("arr-raise-abstract-dtype", expect=const("!AnnotationError"), src="isinstance(np.zeros(3), Float)")
def _(W):
    return isinstance(z(3), Float)


# ---- plain PyTree checks --------------------------------------------------------------------
@op("pt-pass-struct", expect=const(True), binds=lambda W: {"S" + W.t: "struct"},
    src='isinstance((1, 2), PyTree[int, "S"])')
def _(W):
    return isinstance((1, 2), PyTree[int, "S" + W.t])


@op("pt-pass-nostruct", expect=const(True), src='isinstance({"k": (1, 2)}, PyTree[int])')
def _(W):
    return isinstance({"k": (1, 2)}, PyTree[int])


@op("pt-pass-qmark", expect=const([True, True, False]), src="""
with jaxtyped("context"):
    PT = PyTree[Float[np.ndarray, "?r"], "R"]
    isinstance((np.zeros(3), np.zeros(5)), PT); isinstance((np.zeros(3), np.zeros(5)), PT); isinstance((np.zeros(5), np.zeros(3)), PT)""")
def _(W):
    with jaxtyped("context"):
        PT = PyTree[Float[np.ndarray, "?r" + W.t], "R" + W.t]
        return [isinstance((z(3), z(5)), PT), isinstance((z(3), z(5)), PT), isinstance((z(5), z(3)), PT)]


@op("pt-fail-leaf", expect=const(False), src='isinstance((1, "x"), PyTree[int, "T"])')
def _(W):
    return isinstance((1, "x"), PyTree[int, "T" + W.t])


@op("pt-fail-struct", expect=const([True, False]), src="""
with jaxtyped("context"):
    isinstance((1, 2), PyTree[int, "T"]); isinstance([1, 2], PyTree[int, "T"])""")
def _(W):
    with jaxtyped("context"):
        PT = PyTree[int, "T" + W.t]
        return [isinstance((1, 2), PT), isinstance([1, 2], PT)]


@op("pt-fail-arrayleaf", expect=const(False),
    src='isinstance([np.zeros(7), np.zeros(9, int)], PyTree[Float[np.ndarray, "?n"], "T"])')
def _(W):
    return isinstance([z(7), zi(9)], PyTree[Float[np.ndarray, "?n" + W.t], "T" + W.t])


@op("pt-raise-composite-unbound", expect=const("!AnnotationError"), src='isinstance((1, 2), PyTree[int, "T U"])')
def _(W):
    return isinstance((1, 2), PyTree[int, f"T{W.t} U{W.t}"])


@op("pt-raise-nested-qmark", tags=("raises",),
    src='isinstance(((np.zeros(3),),), PyTree[PyTree[Float[np.ndarray, "?n"], "T"], "U"])')
def _(W):
    return isinstance(((z(3),),), PyTree[PyTree[Float[np.ndarray, "?n" + W.t], "T" + W.t], "U" + W.t])


@op("pt-pass-composite", expect=const([True, True, True, True, False]), src="""
with jaxtyped("context"):   # docs: PyTree, case (d)/(e)/(f)
    isinstance((1, 2), PyTree[int, "T"]); isinstance({"key": 3}, PyTree[int, "S"])
    isinstance({"key": (4, 5)}, PyTree[int, "S T"]); isinstance([{"key": (4, 5)}], PyTree[int, "... T"])
    isinstance({"key": 4}, PyTree[int, "S T"])""")
def _(W):
    with jaxtyped("context"):
        t, s = "T" + W.t, "S" + W.t
        return [isinstance((1, 2), PyTree[int, t]), isinstance({"key": 3}, PyTree[int, s]),
                isinstance({"key": (4, 5)}, PyTree[int, f"{s} {t}"]),
                isinstance([{"key": (4, 5)}], PyTree[int, f"... {t}"]),
                isinstance({"key": 4}, PyTree[int, f"{s} {t}"])]


# ---- decorations / pickling / hooks mentioning the shared annotation object Vec ---------------
@op("deco-new-typeguard", expect=const([[5], "!TypeCheckError"]), src="""
@jaxtyped(typechecker=typeguard.typechecked)
def h(x: Vec) -> Vec: return x
h(np.zeros(5)); h(np.zeros(5, int))""")
def _(W):
    @jaxtyped(typechecker=tg)
    def h(x: W.Vec) -> W.Vec:
        return x

    return [T(lambda: h(z(5)).shape), T(lambda: h(zi(5)))]


@op("deco-new-beartype", expect=const([[5], "!TypeCheckError"]), src="""
@jaxtyped(typechecker=beartype.beartype)
def h(x: Vec) -> Vec: return x
h(np.zeros(5)); h(np.zeros(5, int))""")
def _(W):
    @jaxtyped(typechecker=bt)
    def h(x: W.Vec) -> W.Vec:
        return x

    return [T(lambda: h(z(5)).shape), T(lambda: h(zi(5)))]


@op("deco-old-typeguard", expect=const([[5], "!TypeError"]), src="""
def h(x: Vec) -> Vec: return x
h = jaxtyped(typeguard.typechecked(h))
h(np.zeros(5)); h(np.zeros(5, int))""")
def _(W):
    def h(x: W.Vec) -> W.Vec:
        return x

    h = jaxtyped(tg(h))
    return [T(lambda: h(z(5)).shape), T(lambda: h(zi(5)))]


@op("deco-none", expect=const([True, False]), src="""
@jaxtyped(typechecker=None)
def h(x: Vec): return isinstance(x, Vec)
h(np.zeros(5)); h(np.zeros(5, int))""")
def _(W):
    @jaxtyped(typechecker=None)
    def h(x: W.Vec):
        return isinstance(x, W.Vec)

    return [T(lambda: h(z(5))), T(lambda: h(zi(5)))]


@op("deco-new-gen", expect=const(1), src="""
@jaxtyped(typechecker=typeguard.typechecked)
def g() -> Iterator[Vec]: yield np.zeros(5)
list(g())""")
def _(W):
    @jaxtyped(typechecker=tg)
    def g() -> Iterator[W.Vec]:
        yield z(5)

    return len(list(g()))


@op("deco-old-gen", expect=const(1), tags=("oldstyle-generator",), src="""
def g() -> Iterator[Vec]: yield np.zeros(5)
g = jaxtyped(typeguard.typechecked(g))      # old double-decorator style on a GENERATOR function
list(g())""")
def _(W):
    def g() -> Iterator[W.Vec]:
        yield z(5)

    g = jaxtyped(tg(g))
    return len(list(g()))


@op("deco-old-gen-optional", expect=const(1), tags=("oldstyle-generator",), src="""
def g() -> Iterator[Optional[Vec]]: yield np.zeros(5)
g = jaxtyped(typeguard.typechecked(g))
list(g())""")
def _(W):
    def g() -> Iterator[Optional[W.Vec]]:
        yield z(5)

    g = jaxtyped(tg(g))
    return len(list(g()))


@op("deco-old-asyncgen", expect=const(1), tags=("oldstyle-generator",), src="""
async def g() -> AsyncIterator[Vec]: yield np.zeros(5)
g = jaxtyped(g)                              # old style (no typechecker) on an ASYNC GENERATOR function
async def drain(): return len([x async for x in g()])
asyncio.run(drain())""")
def _(W):
    async def g() -> AsyncIterator[W.Vec]:
        yield z(5)

    g = jaxtyped(g)

    async def drain():
        return len([x async for x in g()])

    co = drain()
    try:
        co.send(None)
    except StopIteration as e:
        return e.value
    finally:
        co.close()
    return "suspended"


@op("deco-dataclass", expect=const(["ok", "!TypeCheckError"]), src="""
@jaxtyped(typechecker=typeguard.typechecked)
@dataclasses.dataclass
class DC: x: Vec
DC(np.zeros(5)); DC(np.zeros(5, int))""")
def _(W):
    @jaxtyped(typechecker=tg)
    @dataclasses.dataclass
    class DC:
        x: W.Vec

    return [T(lambda: DC(z(5)) and "ok"), T(lambda: DC(zi(5)))]


@op("deco-descriptors", expect=const([[5], "!TypeCheckError", [5], "!TypeCheckError", [5]]), src="""
class K:
    @jaxtyped(typechecker=typeguard.typechecked)
    @staticmethod
    def s(x: Vec) -> Vec: return x
    @jaxtyped(typechecker=typeguard.typechecked)
    @classmethod
    def c(cls, x: Vec) -> Vec: return x
    @jaxtyped(typechecker=typeguard.typechecked)
    @property
    def p(self) -> Vec: return np.zeros(5)
K.s(np.zeros(5)); K.s("str"); K.c(np.zeros(5)); K.c(np.zeros((5, 5))); K().p""")
def _(W):
    class K:
        @jaxtyped(typechecker=tg)
        @staticmethod
        def s(x: W.Vec) -> W.Vec:
            return x

        @jaxtyped(typechecker=tg)
        @classmethod
        def c(cls, x: W.Vec) -> W.Vec:
            return x

        @jaxtyped(typechecker=tg)
        @property
        def p(self) -> W.Vec:
            return z(5)

    return [T(lambda: K.s(z(5)).shape), T(lambda: K.s("str")), T(lambda: K.c(z(5)).shape),
            T(lambda: K.c(z(5, 5))), T(lambda: K().p.shape)]


@op("deco-union", expect=const(["ok", "ok", "!TypeCheckError"]), src="""
@jaxtyped(typechecker=typeguard.typechecked)
def h(x: Union[Vec, None], y: Optional[Vec] = None): return "ok"
h(np.zeros(5)); h(None, np.zeros(5)); h(np.zeros(5), np.zeros(6))""")
def _(W):
    @jaxtyped(typechecker=tg)
    def h(x: Union[W.Vec, None], y: Optional[W.Vec] = None):
        return "ok"

    return [T(lambda: h(z(5))), T(lambda: h(None, z(5))), T(lambda: h(z(5), z(6)))]


@op("pickle-vec", expect=const([True, False, False]), binds=lambda W: {"v" + W.t: 5},
    src='R = pickle.loads(pickle.dumps(Vec)); isinstance(np.zeros(5), R); isinstance(np.zeros(5, int), R); isinstance("str", R)')
def _(W):
    R = pickle.loads(pickle.dumps(W.Vec))
    return [isinstance(z(5), R), isinstance(zi(5), R), isinstance("str", R)]


@op("cloudpickle-vec", expect=const([True, False, False]), binds=lambda W: {"v" + W.t: 5},
    src='R = cloudpickle.loads(cloudpickle.dumps(Vec)); isinstance(np.zeros(5), R); isinstance(np.zeros(5, int), R); isinstance("str", R)')
def _(W):
    R = cloudpickle.loads(cloudpickle.dumps(W.Vec))
    return [isinstance(z(5), R), isinstance(zi(5), R), isinstance("str", R)]


@op("hook-install-uninstall", expect=const("ok"),
    src='install_import_hook("b12_no_such_package", "typeguard.typechecked").uninstall()')
def _(W):
    install_import_hook("b12_no_such_package", "typeguard.typechecked").uninstall()
    with install_import_hook(["b12_no_such_package", "b12_other"], "beartype.beartype"):
        pass
    return "ok"


HOOK_DIR = [None]
HOOK_SRC = '''
import numpy as np
from jaxtyping import Float
def hf(x: Float[np.ndarray, "hh"], y: Float[np.ndarray, "hh"]):
    return 1
'''


@op("hook-import-module", expect=const([1, "!TypeCheckError"]), src="""
# a module file b12hooked_mod.py containing  def hf(x: Float[np.ndarray, "hh"], y: Float[np.ndarray, "hh"]): return 1
with install_import_hook("b12hooked_mod", "typeguard.typechecked"):
    import b12hooked_mod
b12hooked_mod.hf(np.zeros(3), np.zeros(3)); b12hooked_mod.hf(np.zeros(3), np.zeros(4))""")
def _(W):
    sys.path.insert(0, HOOK_DIR[0])
    try:
        sys.modules.pop("b12hooked_mod", None)
        with install_import_hook("b12hooked_mod", "typeguard.typechecked"):
            import b12hooked_mod as m
        return [T(lambda: m.hf(z(3), z(3))), T(lambda: m.hf(z(3), z(4)))]
    finally:
        sys.path.remove(HOOK_DIR[0])
        sys.modules.pop("b12hooked_mod", None)


@op("print-bindings", expect=const("ok"), src="print_bindings()")
def _(W):
    capture_print_bindings()
    return "ok"


@op("nested-contexts", expect=const([True, False, True]), src="""
with jaxtyped("context"):
    isinstance(np.zeros(7), Float[np.ndarray, "a"])
    with jaxtyped("context"):
        isinstance(np.zeros(9), Float[np.ndarray, "a"])     # new context: unrelated to the outer a=7
    isinstance(np.zeros(9), Float[np.ndarray, "a"])""")
def _(W):
    A = Float[np.ndarray, "a" + W.t]
    with jaxtyped("context"):
        r1 = isinstance(z(7), A)
        with jaxtyped("context"):
            r3 = isinstance(z(9), A)
        r2 = isinstance(z(9), A)
    return [r1, r2, r3]


# ---- single faults at every call-out point -----------------------------------------------------
def fault_ops(ek, E):
    sfx = f"[{ek}]"
    En = E.__name__

    def fop(name, src, tags=()):
        return op(name + sfx, src=src.replace("EXC", En), tags=("fault", "fault-" + ek) + tuple(tags))

    for k in (1, 2, 3, 4):
        @fop(f"fault-shape@{k}", f'isinstance(Duck((7, 1, 9), shape_raises=EXC, at_access={k}), DuckDtype[Duck, "a *b c"])')
        def _(W, k=k):
            return isinstance(Duck((7, 1, 9), st=Trigger(E, k)), DuckDtype[Duck, f"a{W.t} *b{W.t} c{W.t}"])

    for k in (1, 3):
        @fop(f"fault-dtype@{k}", f'isinstance(Duck((7, 9), dtype_raises=EXC, at_access={k}), DuckDtype[Duck, "a b"])')
        def _(W, k=k):
            return isinstance(Duck((7, 9), dt=Trigger(E, k)), DuckDtype[Duck, f"a{W.t} b{W.t}"])

    @fop("fault-hasattr-any", 'isinstance(Duck((7, 9), dtype_raises=EXC, at_access=1), DuckDtype[Any, "a b"])')
    def _(W):
        return isinstance(Duck((7, 9), dt=Trigger(E, 1)), DuckDtype[Any, f"a{W.t} b{W.t}"])

    @fop("fault-arraytype-instancecheck", 'isinstance(np.zeros(7), Float[ArrT, "a"])   # ArrT: metaclass __instancecheck__ raises EXC')
    def _(W):
        return isinstance(z(7), Float[make_array_type(E), f"a{W.t}"])

    @fop("fault-fexpr-inline", """
import sys, types; hookmod = types.ModuleType("_b12hook"); sys.modules["_b12hook"] = hookmod
def boom(): raise EXC("injected fault")
hookmod.boom = boom
isinstance(np.zeros((7, 9)), Float[np.ndarray, "a {__import__('_b12hook').boom()}"])""")
    def _(W):
        _hook.exc = E
        return isinstance(z(7, 9), Float[np.ndarray, f"a{W.t} {{__import__('_b12hook').boom()}}"])

    @fop("fault-fexpr-arg", """
@jaxtyped(typechecker=typeguard.typechecked)
def g(x: Float[np.ndarray, "a {h.v}"], h): return 0       # property h.v raises EXC
g(np.zeros((7, 9)), PropBomb(EXC))""")
    def _(W):
        @jaxtyped(typechecker=tg)
        def g(x: Float[np.ndarray, f"a{W.t} {{h.v}}"], h):
            return 0

        return g(z(7, 9), PropBomb(E))

    @fop("fault-flatten-struct", 'isinstance([np.zeros(7), BombNode(EXC)], PyTree[Float[np.ndarray, "?n"], "T"])   # BombNode: registered pytree node whose flatten raises')
    def _(W):
        return isinstance([z(7), BombNode(E)], PyTree[Float[np.ndarray, "?n" + W.t], "T" + W.t])

    @fop("fault-flatten-nostruct", "isinstance([1, BombNode(EXC)], PyTree[int])")
    def _(W):
        return isinstance([1, BombNode(E)], PyTree[int])

    for k, what in ((1, "during-flatten"), (2, "during-flatten"), (4, "leaf0"), (5, "leaf1")):
        @fop(f"fault-leaf-instancecheck@{k}", f'isinstance([LeafObj(), LeafObj()], PyTree[LeafT, "T"])   # LeafT: metaclass __instancecheck__ raises EXC at its call #{k} ({what})')
        def _(W, k=k):
            return isinstance([LeafObj(), LeafObj()], PyTree[make_leaf_type(E, k), "T" + W.t])

    @fop("fault-leaf-instancecheck-nostruct@4", "isinstance([LeafObj(), LeafObj()], PyTree[LeafT])   # raises at call #4 (leaf0)")
    def _(W):
        return isinstance([LeafObj(), LeafObj()], PyTree[make_leaf_type(E, 4)])

    @fop("fault-duck-in-pytree", 'isinstance([Duck((7,)), Duck((9,), shape_raises=EXC, at_access=1)], PyTree[DuckDtype[Duck, "?n"], "T"])')
    def _(W):
        return isinstance([Duck((7,)), Duck((9,), st=Trigger(E, 1))],
                          PyTree[DuckDtype[Duck, "?n" + W.t], "T" + W.t])

    @fop("fault-unflatten", """
with jaxtyped("context"):     # UNode: registered pytree node whose unflatten raises EXC
    isinstance(UNode(1), PyTree[int, "T"]); isinstance(UNode(UNode(1)), PyTree[int, "T T"])""")
    def _(W):
        with jaxtyped("context"):
            r = [isinstance(UNode(1), PyTree[int, "T" + W.t])]
            UNode.armed = E
            try:
                r.append(T(lambda: isinstance(UNode(UNode(1)), PyTree[int, f"T{W.t} T{W.t}"])))
            finally:
                UNode.armed = None
            return r

    def fn_src(deco):
        return f"""
def f(x: Float[np.ndarray, "a b"]) -> Float[np.ndarray, "a b"]: raise EXC("injected fault")
f = {deco}
f(np.zeros((7, 9)))"""

    for variant, mk, deco in (
        ("new-typeguard", lambda f: jaxtyped(typechecker=tg)(f), "jaxtyped(typechecker=typeguard.typechecked)(f)"),
        ("new-beartype", lambda f: jaxtyped(typechecker=bt)(f), "jaxtyped(typechecker=beartype.beartype)(f)"),
        ("old-typeguard", lambda f: jaxtyped(tg(f)), "jaxtyped(typeguard.typechecked(f))"),
        ("none", lambda f: jaxtyped(typechecker=None)(f), "jaxtyped(typechecker=None)(f)"),
    ):
        @fop(f"fault-fn-{variant}", fn_src(deco))
        def _(W, mk=mk):
            def f(x: Float[np.ndarray, f"a{W.t} b{W.t}"]) -> Float[np.ndarray, f"a{W.t} b{W.t}"]:
                inject(E)

            return mk(f)(z(7, 9))

    @fop("fault-typechecker-call", """
def bad_tc(fn):
    def wrapper(*a, **k): raise EXC("injected fault")
    return wrapper
@jaxtyped(typechecker=bad_tc)
def f(x: Float[np.ndarray, "a b"]): return 0
f(np.zeros((7, 9)))""")
    def _(W):
        def bad_tc(fn):
            def wrapper(*a, **k):
                inject(E)

            return wrapper

        @jaxtyped(typechecker=bad_tc)
        def f(x: Float[np.ndarray, f"a{W.t} b{W.t}"]):
            return 0

        return f(z(7, 9))

    @fop("fault-typechecker-return", """
def bad_tc(fn):       # fine for the parameter check, raises EXC when the return value is checked
    def wrapper(*a, **k):
        if any(n.startswith("ret") for n in k): raise EXC("injected fault")
        return typeguard.typechecked(fn)(*a, **k)
    return wrapper
@jaxtyped(typechecker=bad_tc)
def f(x: Float[np.ndarray, "a b"]) -> Float[np.ndarray, "a b"]: return x
f(np.zeros((7, 9)))""")
    def _(W):
        def bad_tc(fn):
            good = tg(fn)

            def wrapper(*a, **k):
                if any(n.startswith("ret") for n in k):
                    inject(E)
                return good(*a, **k)

            return wrapper

        @jaxtyped(typechecker=bad_tc)
        def f(x: Float[np.ndarray, f"a{W.t} b{W.t}"]) -> Float[np.ndarray, f"a{W.t} b{W.t}"]:
            return x

        return f(z(7, 9)).shape

    @fop("fault-typechecker-decoration", """
def bad_tc(fn): raise EXC("injected fault")
@jaxtyped(typechecker=bad_tc)
def f(x: Vec): return 0""")
    def _(W):
        def bad_tc(fn):
            inject(E)

        @jaxtyped(typechecker=bad_tc)
        def f(x: W.Vec):
            return 0

        return "decorated"

    @fop("fault-repr", """
@jaxtyped(typechecker=typeguard.typechecked)
def f(x: Float[np.ndarray, "a"], y): return 0
f(np.zeros(7, int), BadRepr(EXC))        # error-message formatting calls y.__repr__, which raises EXC""")
    def _(W):
        @jaxtyped(typechecker=tg)
        def f(x: Float[np.ndarray, f"a{W.t}"], y):
            return 0

        return f(zi(7), BadRepr(E))

    @fop("fault-duck-in-call", """
@jaxtyped(typechecker=typeguard.typechecked)
def f(x: DuckDtype[Duck, "a b"], y: DuckDtype[Duck, "a b"]): return 0
f(Duck((7, 9)), Duck((7, 9), shape_raises=EXC, at_access=2))""")
    def _(W):
        @jaxtyped(typechecker=tg)
        def f(x: DuckDtype[Duck, f"a{W.t} b{W.t}"], y: DuckDtype[Duck, f"a{W.t} b{W.t}"]):
            return 0

        return f(Duck((7, 9)), Duck((7, 9), st=Trigger(E, 2)))

    @fop("fault-context-body", """
with jaxtyped("context"):
    isinstance(np.zeros((7, 9)), Float[np.ndarray, "a b"])
    raise EXC("injected fault")""")
    def _(W):
        with jaxtyped("context"):
            isinstance(z(7, 9), Float[np.ndarray, f"a{W.t} b{W.t}"])
            inject(E)


N_PLAIN = len(OPS)
for _ek, _E in FAULT_CLASSES.items():
    fault_ops(_ek, _E)
OPS_BY_NAME = {o.name: i for i, o in enumerate(OPS)}
assert len(OPS_BY_NAME) == len(OPS)


# --------------------------------------------------------------------------------------------
# probes  (name -> (thunk(W), expected))     expected values come from the docs, see module docstring
# --------------------------------------------------------------------------------------------
@jaxtyped(typechecker=tg)
def F_PRE(x: Float[np.ndarray, "a b"], y: Float[np.ndarray, "b c"]) -> Float[np.ndarray, "a c"]:
    return x @ y


@jaxtyped(typechecker=bt)
def F_PRE_BT(x: Float[np.ndarray, "a b"], y: Float[np.ndarray, "b c"]) -> Float[np.ndarray, "a c"]:
    return x @ y


def probe_table(W, in_context, full):
    """list of (name, thunk, expected, src).  `in_context`: the probes run inside the history's own
    context (ctx / fn placement); otherwise they run where no jaxtyping context is open.
    `full`: also the (expensive) probes that decorate new functions; used once per history, at the end."""
    t = W.t
    AB = Float[np.ndarray, f"a{t} b{t}"]
    A = Float[np.ndarray, f"a{t}"]
    PT = PyTree[Float[np.ndarray, "?n" + t], "T" + t]

    def qmark():
        return [isinstance((z(3), z(5)), PT), isinstance((z(3), z(5)), PT),
                isinstance((z(5), z(3)), PT), isinstance([z(3), z(5)], PT)]

    def qmark_fresh():
        with jaxtyped("context"):
            return qmark()

    def newf(tc):
        @jaxtyped(typechecker=tc)
        def f(x: Float[np.ndarray, f"a{t} b{t}"], y: Float[np.ndarray, f"b{t} c{t}"]) -> Float[np.ndarray, f"a{t} c{t}"]:
            return x @ y

        return f

    def badret():
        @jaxtyped(typechecker=tg)
        def f(x: Float[np.ndarray, f"a{t} b{t}"]) -> Float[np.ndarray, f"b{t} a{t}"]:
            return x

        return f(z(2, 3))

    def vec_call():
        @jaxtyped(typechecker=tg)
        def hv(x: W.Vec):
            return "ok"

        return [T(lambda: hv(z(5))), T(lambda: hv("str")), T(lambda: hv(zi(5)))]

    def calls(f):
        return [T(lambda: f(z(2, 3), z(3, 4)).shape), T(lambda: f(z(2, 3), z(4, 3)))]

    def calls3(f):
        return calls(f) + [T(lambda: f(zi(2, 3), zi(3, 4)))]

    call_exp = [[2, 4], "!TypeCheckError"]
    P = [
        ("arr-accept", lambda: isinstance(z(2, 3), AB), True, 'isinstance(np.zeros((2, 3)), Float[np.ndarray, "a b"])  # must be True'),
        ("arr-reject-dtype", lambda: isinstance(zi(2), A), False, 'isinstance(np.zeros(2, int), Float[np.ndarray, "a"])  # must be False'),
        ("arr-reject-rank", lambda: isinstance(z(2, 3), A), False, 'isinstance(np.zeros((2, 3)), Float[np.ndarray, "a"])  # must be False'),
        # inside a context a=2, b=3 were bound by the passing `arr-accept` probe just above
        ("arr-size-vs-context", lambda: isinstance(z(4, 3), AB), (False if in_context else True),
         'isinstance(np.zeros((4, 3)), Float[np.ndarray, "a b"])  # False inside the context (a=2 bound by the previous probe), True with no context'),
        ("vec-reject-str", lambda: isinstance("str", W.Vec), False, 'isinstance("str", Vec)  # must be False'),
        ("vec-reject-dtype", lambda: isinstance(zi(5), W.Vec), False, "isinstance(np.zeros(5, int), Vec)  # must be False"),
        ("vec-reject-rank", lambda: isinstance(z(5, 5), W.Vec), False, "isinstance(np.zeros((5, 5)), Vec)  # must be False"),
        ("vec-accept", lambda: isinstance(z(5), W.Vec), True, "isinstance(np.zeros(5), Vec)  # must be True"),
        ("qmark-outside-pytree", lambda: isinstance(z(3), Float[np.ndarray, "?n" + t]), "!AnnotationError",
         'isinstance(np.zeros(3), Float[np.ndarray, "?n"])  # must raise AnnotationError'),
        ("pytree-int", lambda: [isinstance((1, 2, {"k": 3}), PyTree[int]), isinstance((1, 2.0), PyTree[int])], [True, False],
         'isinstance((1, 2, {"k": 3}), PyTree[int]), isinstance((1, 2.0), PyTree[int])  # must be True, False'),
        ("pytree-qmark", (qmark if in_context else qmark_fresh), [True, True, False, False],
         'PT = PyTree[Float[np.ndarray, "?n"], "T"]  # in a context; must be True, True, False, False\n'
         "isinstance((np.zeros(3), np.zeros(5)), PT), isinstance((np.zeros(3), np.zeros(5)), PT), isinstance((np.zeros(5), np.zeros(3)), PT), isinstance([np.zeros(3), np.zeros(5)], PT)"),
        ("call-prebuilt-typeguard", lambda: calls(F_PRE), call_exp,
         '# F: @jaxtyped(typechecker=typechecked) def F(x: Float[np.ndarray,"a b"], y: Float[np.ndarray,"b c"]) -> Float[np.ndarray,"a c"]: return x @ y   (decorated before the history)\n'
         "F(np.zeros((2, 3)), np.zeros((3, 4))), F(np.zeros((2, 3)), np.zeros((4, 3)))  # ok, TypeCheckError"),
    ]
    if not full:
        return P
    P += [
        ("call-prebuilt-beartype", lambda: calls(F_PRE_BT), call_exp, "same as call-prebuilt-typeguard with typechecker=beartype"),
        ("call-new-typeguard", lambda: calls3(newf(tg)), call_exp + ["!TypeCheckError"], "same, F decorated after the history; third call with int arrays must raise TypeCheckError"),
    ]
    if ARGS.tier != "quick" or W.t == "_src":  # (beartype code generation is the most expensive probe: thorough tier only)
        P.append(("call-new-beartype", lambda: calls(newf(bt)), call_exp, "same, F decorated after the history (beartype)"))
    P += [
        ("call-bad-return", badret, "!TypeCheckError", 'def f(x: Float[np.ndarray,"a b"]) -> Float[np.ndarray,"b a"]: return x ; f(np.zeros((2,3)))  # must raise'),
        ("vec-decorated-call", vec_call, ["ok", "!TypeCheckError", "!TypeCheckError"],
         '@jaxtyped(typechecker=typeguard.typechecked)\ndef hv(x: Vec): return "ok"\nhv(np.zeros(5)), hv("str"), hv(np.zeros(5, int))  # ok, TypeCheckError, TypeCheckError'),
    ]
    return P


PROBE_SRC = {}


def run_probes(W, in_context, depth_expected, out, where, full):
    """appends violations to `out`; returns number of comparisons"""
    n = 0
    for name, thunk, expected, src in probe_table(W, in_context, full):
        PROBE_SRC[name] = src
        actual = T(thunk)
        n += 1
        if actual != norm(expected):
            out.append({"clause": f"probe:{name}@{where}", "expected": norm(expected), "actual": actual})
    # direct observation of transient state
    obs = observe_state(W)
    exp = {"flatten-mode": False, "qmark-label": None, "stack-depth": depth_expected, "vec-skip-flag": False}
    for k, v in exp.items():
        n += 1
        if obs[k] != "n/a" and obs[k] != v:
            out.append({"clause": f"state:{k}@{where}", "expected": v, "actual": obs[k]})
    return n


def observe_state(W):
    d = {}
    f = getattr(_storage, "get_treeflatten_memo", None)
    d["flatten-mode"] = T(lambda: bool(f())) if f is not None else "n/a"
    tp = getattr(_storage, "_treepath_storage", None)
    d["qmark-label"] = "n/a" if tp is None else getattr(tp, "value", None)
    ss = getattr(_storage, "_shape_storage", None)
    d["stack-depth"] = "n/a" if ss is None else len(getattr(ss, "memo_stack", []))
    d["vec-skip-flag"] = bool(getattr(W.Vec, "_skip_instancecheck", False))
    return d


def parse_bindings(text):
    out = {}
    for line in text.splitlines():
        m = re.match(r"^(.+?)=(.*)$", line)
        if not m:
            continue
        key, val = m.group(1).strip(), m.group(2).strip()
        try:
            v = ast.literal_eval(val)
            v = list(v) if isinstance(v, tuple) else v
        except Exception:
            v = "struct"
        out[key] = v
    return out


# --------------------------------------------------------------------------------------------
# running one history
# --------------------------------------------------------------------------------------------
MODES = ("top", "ctx", "fn")


def run_history(seq, mode, idx):
    """returns (violations, comparisons, all_faults_fired, record)"""
    W = World(f"_{idx}")
    viol, rec = [], {"ops": []}
    ncmp = [0]
    fired_all = [True]
    model = {}
    if mode == "fn":
        model["mm" + W.t] = 6

    def inner():
        for oi in seq:
            o = OPS[oi]
            FIRED[0] = 0
            actual = T(lambda: o.fn(W))
            rec["ops"].append([o.name, actual])
            if o.is_fault and FIRED[0] == 0:
                fired_all[0] = False
            if o.expect is not None:
                e = norm(o.expect(W))
                ncmp[0] += 1
                if actual != e:
                    viol.append({"clause": f"op-verdict:{o.name}", "expected": e, "actual": actual})
                elif o.binds is not None and mode != "top":
                    model.update({k: norm(v) for k, v in o.binds(W).items()})
        if mode != "top":
            got = T(lambda: parse_bindings(capture_print_bindings()))
            ncmp[0] += 1
            if got != model:
                viol.append({"clause": "context-bindings@in", "expected": dict(model), "actual": got})
        ncmp[0] += run_probes(W, mode != "top", 0 if mode == "top" else 1, viol, "in" if mode != "top" else "top", mode == "top")

    def placed():
        if mode == "top":
            inner()
        elif mode == "ctx":
            with jaxtyped("context"):
                inner()
        else:
            @jaxtyped(typechecker=tg)
            def body(m: Float[np.ndarray, "mm" + W.t]):
                inner()

            body(z(6))
        return "ok"

    r = T(placed)
    ncmp[0] += 1
    if r != "ok":
        viol.append({"clause": "placement-exit", "expected": "ok", "actual": r})
    if mode != "top":
        ncmp[0] += run_probes(W, False, 0, viol, "after", True)
    out = T(lambda: capture_print_bindings().strip())
    ncmp[0] += 1
    if out != "":
        viol.append({"clause": "print-bindings-top-level", "expected": "", "actual": out})
    return viol, ncmp[0], fired_all[0], rec


def globally_corrupted():
    obs = observe_state(World("_x"))
    return obs["flatten-mode"] not in (False, "n/a") or obs["qmark-label"] not in (None, "n/a") or obs["stack-depth"] not in (0, "n/a")


def heal():
    """best-effort reset of jaxtyping's process-global transient state (only used once corruption is so
    pervasive that re-forking after every history is pointless)"""
    for name in ("clear_treepath_memo", "clear_treeflatten_memo"):
        T(getattr(_storage, name, lambda: None))
    ss = getattr(_storage, "_shape_storage", None)
    if ss is not None and hasattr(ss, "memo_stack"):
        del ss.memo_stack[:]


def run_chunk(task):
    """worker entry: task = (chunk, stop); chunk = list of (idx, seq, mode).  With `stop`, returns early as soon
    as process-global state is found corrupted after a history (the parent re-runs the rest in a fresh fork)."""
    chunk, stop = task
    res, done = [], 0
    for idx, seq, mode in chunk:
        try:
            viol, ncmp, fired, rec = run_history(seq, mode, idx)
            suspicious = "RecursionError" in json.dumps(viol, default=repr)
        except RecursionError:
            suspicious = True
        if suspicious and done > 0:
            # jaxlib's tree_flatten leaks one unit of CPython's C-recursion budget per exception that passes through it,
            # so a long-lived worker eventually sees spurious RecursionErrors: re-run this history first in a fresh fork
            break
        if suspicious and not isinstance(locals().get("viol"), list):
            viol, ncmp, fired, rec = [{"clause": "placement-exit", "expected": "ok", "actual": "!RecursionError"}], 1, True, {"ops": []}
        res.append((idx, viol, ncmp, fired, rec if idx % 997 == 0 else None))
        done += 1
        if globally_corrupted():
            if stop:
                break
            heal()
    return res, done


CHILDREN = set()


def _terminate(*_a):
    for pid in list(CHILDREN):
        try:
            os.kill(pid, signal.SIGKILL)
        except OSError:
            pass
    sys.exit(1)


def fork_map(tasks, nproc, deadline=420.0):
    """run_chunk(task) for every task, each in its own forked child (at most `nproc` at a time).
    Returns a list of results; None where the child died without delivering one."""
    results = [None] * len(tasks)
    todo = list(range(len(tasks)))[::-1]
    running = {}
    while todo or running:
        while todo and len(running) < nproc:
            i = todo.pop()
            r, w = os.pipe()
            sys.stdout.flush()
            pid = os.fork()
            if pid == 0:
                code = 0
                try:
                    signal.signal(signal.SIGTERM, signal.SIG_DFL)
                    os.close(r)
                    data = pickle.dumps(run_chunk(tasks[i]))
                    with os.fdopen(w, "wb") as fh:
                        fh.write(data)
                except BaseException:  # noqa: BLE001
                    code = 3
                    try:
                        traceback.print_exc()
                    except BaseException:  # noqa: BLE001
                        pass
                finally:
                    os._exit(code)
            os.close(w)
            CHILDREN.add(pid)
            running[r] = [pid, i, [], time.time()]
        ready, _, _ = select.select(list(running), [], [], 5.0)
        for fd in ready:
            data = os.read(fd, 1 << 20)
            if data:
                running[fd][2].append(data)
                continue
            pid, i, buf, _t = running.pop(fd)
            os.close(fd)
            os.waitpid(pid, 0)
            CHILDREN.discard(pid)
            try:
                results[i] = pickle.loads(b"".join(buf))
            except Exception:
                results[i] = None
        for fd, (pid, i, buf, t_start) in list(running.items()):
            if time.time() - t_start > deadline:
                try:
                    os.kill(pid, signal.SIGKILL)
                except OSError:
                    pass
    return results


# --------------------------------------------------------------------------------------------
# enumeration
# --------------------------------------------------------------------------------------------
THOROUGH_ONLY = re.compile(r"^(fault-shape@2|fault-dtype@3|fault-leaf-instancecheck@2|fault-fn-new-beartype|deco-old-gen-optional|"
                           r"cloudpickle-vec|deco-new-beartype|arr-pass-duck)(\[\w+\])?$")


def catalogue(tier):
    classes = ("exc", "kbi") if tier == "quick" else ("exc", "kbi", "base")
    keep = []
    for i, o in enumerate(OPS):
        if o.is_fault and not any("fault-" + c in o.tags for c in classes):
            continue
        if tier == "quick" and THOROUGH_ONLY.match(o.name):
            continue  # near-duplicates of other catalogue entries; kept for the thorough tier
        keep.append(i)
    return keep


CORE_NAMES = [
    "arr-pass", "arr-pass-vec", "arr-fail-shape", "arr-raise-qmark", "pt-pass-struct", "pt-pass-qmark", "pt-fail-arrayleaf",
    "pt-raise-nested-qmark", "deco-new-typeguard", "deco-old-gen", "pickle-vec", "hook-install-uninstall",
    "fault-shape@3[kbi]", "fault-shape@3[exc]", "fault-fexpr-inline[kbi]", "fault-fexpr-inline[exc]",
    "fault-flatten-struct[kbi]", "fault-flatten-struct[exc]", "fault-leaf-instancecheck@1[kbi]", "fault-leaf-instancecheck@4[kbi]",
    "fault-leaf-instancecheck@4[exc]", "fault-duck-in-pytree[kbi]", "fault-fn-new-typeguard[kbi]", "fault-fn-old-typeguard[exc]",
    "fault-typechecker-call[kbi]", "fault-context-body[kbi]",
]


def enumerate_histories(tier, seed):
    cat = catalogue(tier)
    seqs = [(i,) for i in cat]
    info = {}
    if tier == "quick":
        seqs += [(i, j) for i in cat for j in cat]
        modes_for = lambda s: MODES if len(s) == 1 else ("ctx",)  # noqa: E731
        info["triples"] = 0
    else:
        seqs += [(i, j) for i in cat for j in cat]
        core = [OPS_BY_NAME[n] for n in CORE_NAMES]
        triples = set((i, j, k) for i in core for j in core for k in core)
        rng = random.Random(seed)
        n_rand = 12000
        while len(triples) < len(core) ** 3 + n_rand:
            triples.add((rng.choice(cat), rng.choice(cat), rng.choice(cat)))
        seqs += sorted(triples)
        modes_for = lambda s: MODES if len(s) == 1 else (("top", "ctx") if len(s) == 2 else ("ctx",))  # noqa: E731
        info["triples"] = len(triples)
        info["core"] = len(core)
    work = []
    for s in seqs:
        for m in modes_for(s):
            work.append((len(work), s, m))
    info["catalogue"] = len(cat)
    info["plain"] = sum(1 for i in cat if not OPS[i].is_fault)
    return work, info


# --------------------------------------------------------------------------------------------
# reporting
# --------------------------------------------------------------------------------------------
BINDING_CLAUSES = re.compile(r"^(context-bindings@in|probe:(arr-accept|arr-size-vs-context|pytree-qmark|vec-accept)@in)$")
VEC_CLAUSES = re.compile(r"^(probe:vec-[a-z-]+@(in|after|top)|state:vec-skip-flag@(in|after|top))$")


def classify(seq, mode, clauses):
    ops = [OPS[i] for i in seq]
    if any("oldstyle-generator" in o.tags for o in ops) and all(VEC_CLAUSES.match(c) for c in clauses):
        return "F7:make-transparent:"
    if mode != "top" and any(o.is_fault and ("fault-kbi" in o.tags or "fault-base" in o.tags) for o in ops) \
            and all(BINDING_CLAUSES.match(c) for c in clauses):
        return "F4:baseexception-rollback:"
    return "C12:history:"


PROBE_ORDER = []


def clause_rank(c):
    m = re.match(r"^probe:([a-z0-9-]+)@(in|after|top)$", c)
    if m:
        return (0, PROBE_ORDER.index(m.group(1)) if m.group(1) in PROBE_ORDER else 99, c)
    if c.startswith("context-bindings"):
        return (1, 0, c)
    if c.startswith("state:"):
        return (2, 0, c)
    return (3, 0, c)


def snippet_for(seq, mode, clauses, repo):
    names = "+".join(OPS[i].name for i in seq)
    clauses = sorted(clauses, key=clause_rank)
    lines = [f"# replay: PYTHONPATH={repo}:/verif /venv/bin/python /verif/bounded/b12_histories.py --repo {repo} --replay '{mode}:{names}'",
             "# (helper classes Duck, DuckDtype, BombNode, LeafT, PropBomb, ... are the ones defined in b12_histories.py)",
             "import numpy as np, typeguard, beartype, pickle, cloudpickle, dataclasses, asyncio; from typing import *",
             "from jaxtyping import Float, PyTree, jaxtyped, print_bindings, install_import_hook; Vec = Float[np.ndarray, 'v']"]
    ind = ""
    if mode == "ctx":
        lines.append('with jaxtyped("context"):')
        ind = "    "
    elif mode == "fn":
        lines.append('@jaxtyped(typechecker=typeguard.typechecked)\ndef body(m: Float[np.ndarray, "mm"]):')
        ind = "    "
    for i in seq:
        lines.append(f"{ind}# operation {OPS[i].name} (any exception it raises is caught and ignored)")
        lines.append(f"{ind}try:")
        for ln in OPS[i].src.splitlines():
            lines.append(f"{ind}    {ln}")
        lines.append(f"{ind}except BaseException: pass")
    inner, outer = [], []
    shown = set()
    for c in clauses:
        m = re.match(r"^probe:([a-z0-9-]+)@(in|after|top)$", c)
        if m and len(shown) < 2 and m.group(1) not in shown:
            shown.add(m.group(1))
            tgt, cind = (inner, ind) if m.group(2) == "in" else (outer, "")
            tgt.append(f"{cind}# probe {c}")
            src = PROBE_SRC.get(m.group(1), "").splitlines()
            for k, ln in enumerate(src):
                if k == len(src) - 1 and not ln.lstrip().startswith(("#", "def ", "@")):
                    code, _, comment = ln.partition("  #")
                    ln = f"print({code})" + (f"  #{comment}" if comment else "")
                tgt.append(f"{cind}{ln}")
        elif c.startswith("context-bindings") and "bindings" not in shown:
            shown.add("bindings")
            inner.append(f"{ind}print_bindings()   # must list only bindings made by checks that PASSED in this context")
        elif c.startswith("state:") and "state" not in shown:
            shown.add("state")
            outer.append("# " + c + ": see jaxtyping._storage.get_treeflatten_memo() / _treepath_storage.value / _shape_storage.memo_stack / Vec._skip_instancecheck")
    lines += inner
    if mode == "fn":
        lines.append("body(np.zeros(6))")
    lines += outer
    return "\n".join(lines)


def subsequences(seq):
    n = len(seq)
    for r in range(1, n):
        for idxs in itertools.combinations(range(n), r):
            yield tuple(seq[i] for i in idxs)


def main():
    replay = None
    if "--replay" in sys.argv:
        replay = sys.argv[sys.argv.index("--replay") + 1]
    tmp = tempfile.mkdtemp(prefix="b12_")
    signal.signal(signal.SIGTERM, _terminate)  # so that the temporary directory is removed even when we are terminated
    HOOK_DIR[0] = tmp
    with open(os.path.join(tmp, "b12hooked_mod.py"), "w") as fh:
        fh.write(HOOK_SRC)
    try:
        if replay is not None:
            mode, names = replay.split(":", 1)
            seq = tuple(OPS_BY_NAME[n] for n in names.split("+")) if names else ()
            viol, ncmp, fired, rec = run_history(seq, mode, 0)
            print(json.dumps({"mode": mode, "ops": rec["ops"], "violations": viol, "comparisons": ncmp, "faults_fired": fired}, indent=1, default=repr))
            return
        run(tmp)
    finally:
        shutil.rmtree(tmp, ignore_errors=True)
        eval("0")  # CPython: a KeyboardInterrupt that passed through eval() leaves an 'unhandled' flag that would turn exit status into SIGINT


def run(tmp):
    tier = ARGS.tier
    for name, _thunk, _exp, src in probe_table(World("_src"), True, True):  # only to collect the probe sources (nothing is checked here)
        PROBE_SRC[name] = src
        PROBE_ORDER.append(name)
    work, info = enumerate_histories(tier, ARGS.seed)
    tally = _common.Tally(max_failures=60)
    nproc = 7
    # pristine baseline: the empty history in every placement, in a fresh fork
    base = [(10 ** 9 + k, (), m) for k, m in enumerate(MODES)]
    chunk_size = 100  # short-lived workers (see the note on jaxlib's recursion-budget leak in run_chunk)
    chunks = [[b] for b in base] + [work[i:i + chunk_size] for i in range(0, len(work), chunk_size)]
    results = {}
    restarts = 0
    comparisons = 0
    crashed = []
    pending = chunks
    while pending:
        nxt = []
        stop = restarts <= 40  # pervasive corruption: stop re-forking, heal in place instead
        for chunk, out in zip(pending, fork_map([(c, stop) for c in pending], nproc)):
            if out is None:  # the worker died: isolate the culprit by re-running the chunk one history per fork
                if len(chunk) == 1:
                    idx, seq, mode = chunk[0]
                    results[idx] = ([{"clause": "worker-died", "expected": "history completes", "actual": "worker process died or timed out"}], True, None)
                    crashed.append(idx)
                else:
                    nxt += [[c] for c in chunk]
                continue
            res, done = out
            for idx, viol, ncmp, fired, rec in res:
                results[idx] = (viol, fired, rec)
                comparisons += ncmp
            if done < len(chunk):
                restarts += 1
                nxt.append(chunk[done:])
        pending = nxt

    # pristine baseline must agree with the documented truth table
    for idx, seq, mode in base:
        viol, fired, rec = results.pop(idx)
        tally.case(("pristine", mode), nontrivial=False)
        if viol:
            tally.fail(f"C12:pristine-baseline:{mode}", sorted((v["clause"] for v in viol), key=clause_rank)[0], input=f"empty history, placement {mode}",
                       expected={v["clause"]: v["expected"] for v in viol}, actual={v["clause"]: v["actual"] for v in viol},
                       snippet=snippet_for((), mode, [v["clause"] for v in viol], ARGS.repo))

    # attribute every violation to the shortest history that shows it
    vio_sets = {}
    unfired = set()
    for idx, seq, mode in work:
        viol, fired, rec = results[idx]
        names = tuple(OPS[i].name for i in seq)
        tally.case((mode, names), nontrivial=fired,
                   sample=({"placement": mode, "history": list(names), "op_outcomes": rec["ops"]} if rec is not None else None))
        if not fired:
            for i in seq:
                if OPS[i].is_fault:
                    unfired.add(OPS[i].name)
        if viol:
            vio_sets[(mode, seq)] = {v["clause"]: v for v in viol}
    explained_count = {}
    reported = []
    for (mode, seq), vs in sorted(vio_sets.items(), key=lambda kv: (len(kv[0][1]), kv[0][0], kv[0][1])):
        unexplained = dict(vs)
        for sub in subsequences(seq):
            sv = vio_sets.get((mode, sub))
            if sv:
                # same clause already violated by a shorter history; or a downstream effect (changed verdict of a
                # later catalogue operation / changed context bindings) of a state some shorter history already corrupted
                hit = [c for c in unexplained if c in sv or c.startswith("op-verdict:") or c.startswith("context-bindings")]
                if hit:
                    explained_count[(mode, sub)] = explained_count.get((mode, sub), 0) + 1
                for c in hit:
                    del unexplained[c]
        if unexplained:
            reported.append((mode, seq, unexplained))
    for mode, seq, vs in reported:
        clauses = sorted(vs, key=clause_rank)
        names = "+".join(OPS[i].name for i in seq)
        prefix = classify(seq, mode, clauses)
        tally.fail(f"{prefix}{mode}:{names}", clauses[0],
                   input=f"placement {mode}; history {names}; violated clauses {clauses}; the same violations recur in {explained_count.get((mode, seq), 0)} longer histories containing this one",
                   expected={c: vs[c]["expected"] for c in clauses}, actual={c: vs[c]["actual"] for c in clauses},
                   snippet=snippet_for(seq, mode, clauses, ARGS.repo))

    n_hist = len(work)
    if tier == "quick":
        bound = (f"catalogue of {info['catalogue']} operations ({info['plain']} plain + {info['catalogue'] - info['plain']} single-fault operations = "
                 f"{(info['catalogue'] - info['plain']) // 2} call-out points x {{Exception subclass, KeyboardInterrupt}}); ALL histories of length 1 in placements top/ctx/fn and "
                 f"ALL histories of length 2 in placement ctx = {n_hist} histories; each followed by 12 probe checks + 4 state observations inside the placement, 16 probe checks "
                 f"+ 4 state observations after leaving it, and print_bindings transcripts")
    else:
        bound = (f"catalogue of {info['catalogue']} operations ({info['plain']} plain + {info['catalogue'] - info['plain']} single-fault operations = "
                 f"{(info['catalogue'] - info['plain']) // 3} call-out points x {{Exception subclass, KeyboardInterrupt, other BaseException subclass}}); ALL histories of length 1 in placements top/ctx/fn, "
                 f"ALL histories of length 2 in placements top/ctx; length 3 in placement ctx: all {info['core']}^3 triples over a core sub-catalogue plus 12000 seeded random triples over the "
                 f"full catalogue ({info['triples']} triples) = {n_hist} histories; each followed by 12 probe checks + 4 state observations inside the placement, 17 probe checks "
                 f"+ 4 state observations after leaving it, and print_bindings transcripts")
    rule = ("history = sequence of catalogue operations run in one placement (top: no context; ctx: one jaxtyped('context') block; fn: body of one jaxtyped function) with fresh, "
            "uniquely-named annotation objects incl. a shared alias Vec; expected probe verdicts = documented truth table (identical to the empty history), expected context bindings = "
            "union of bindings of the operations that passed; the verdict of a faulted operation itself is not judged (statement silent). A history counts as distinct/non-trivial when "
            "every injected fault in it was observed to fire. A violation is reported only for the shortest history showing it (longer ones containing it are counted in `input`). "
            "Excluded: interactions of passing operations that deliberately share axis names with the probes (would be legitimate dependence on the context's bindings).")
    _common.emit(tally, bound=bound, rule=rule, exhaustive=(tier == "quick"),
                 probe_comparisons=comparisons, histories=n_hist, worker_restarts_after_global_corruption=restarts,
                 fault_operations_that_never_fired=sorted(unfired), wall_seconds=round(time.time() - ARGS.t0, 1))


if __name__ == "__main__":
    main()
