"""C01 spec functions, written once against an `ops` object (tagless-final):
Z3Ops builds terms for the VCs; PyOps evaluates on concrete values (replay oracle,
differential stand-ins). Written from the C01 statement, not from the code.

Verdict codes: 0 accept | 1 reject | 2 AnnotationError | 100+t : the exception with Eval-tag t
propagates (Eval tags: 0 value, 1 NameError, >=2 other classes, see ops.eval*).
"""

ACCEPT, REJECT, ANNOT = 0, 1, 2


def axis_key(ops, d):
    """the memo key of a named axis: '?' axes are prefixed by the current leaf label."""
    name = ops.field(d, "_NamedDim", "name")
    return ops.ite(ops.field(d, "_NamedDim", "treepath"), ops.concat(ops.label(), name), name)


def exc_verdict(ops, tag):
    # NameError (tag 1) -> AnnotationError; every other class propagates unchanged
    return ops.ite(ops.eq(tag, ops.int(1)), ops.int(ANNOT), ops.add(ops.int(100), tag))


def axis_step(ops, d, s, memo):
    """one axis `d` against size `s` under single-axis memo -> (verdict, memo')."""
    one = ops.int(1)
    # '_' : anything
    anon = ops.is_cls(d, "_anonymous_dim")
    # fixed
    f_bc = ops.field(d, "_FixedDim", "broadcastable")
    f_ok = ops.or_(ops.and_(f_bc, ops.eq(s, one)), ops.eq(ops.field(d, "_FixedDim", "size"), s))
    fixed_v = ops.ite(f_ok, ops.int(ACCEPT), ops.int(REJECT))
    # symbolic: value of the expression over bound sizes and the call's arguments
    y_bc = ops.field(d, "_SymbolicDim", "broadcastable")
    t1, src = ops.eval_fstring(ops.field(d, "_SymbolicDim", "elem"))
    t2, val = ops.eval_expr(src, memo)
    sym_eval = ops.ite(
        ops.not_(ops.eq(t1, ops.int(0))),
        exc_verdict(ops, t1),
        ops.ite(
            ops.not_(ops.eq(t2, ops.int(0))),
            exc_verdict(ops, t2),
            ops.ite(ops.eq(val, s), ops.int(ACCEPT), ops.int(REJECT)),
        ),
    )
    sym_v = ops.ite(ops.and_(y_bc, ops.eq(s, one)), ops.int(ACCEPT), sym_eval)
    # named
    n_bc = ops.field(d, "_NamedDim", "broadcastable")
    n_tp = ops.field(d, "_NamedDim", "treepath")
    key = axis_key(ops, d)
    bc_hit = ops.and_(n_bc, ops.eq(s, one))
    no_label = ops.and_(n_tp, ops.not_(ops.has_label()))
    bound = ops.has(memo, key)
    # (a '?' axis outside a structured PyTree is an AnnotationError whatever the size -- C16's statement; the '#' + size-one shortcut comes second)
    named_v = ops.ite(
        no_label,
        ops.int(ANNOT),
        ops.ite(
            bc_hit,
            ops.int(ACCEPT),
            ops.ite(bound, ops.ite(ops.eq(ops.get(memo, key), s), ops.int(ACCEPT), ops.int(REJECT)), ops.int(ACCEPT)),
        ),
    )
    verdict = ops.ite(
        anon,
        ops.int(ACCEPT),
        ops.ite(ops.is_cls(d, "_FixedDim"), fixed_v, ops.ite(ops.is_cls(d, "_SymbolicDim"), sym_v, named_v)),
    )
    binds = ops.and_(ops.is_cls(d, "_NamedDim"), ops.not_(bc_hit), ops.not_(no_label), ops.not_(bound))
    memo2 = ops.ite_memo(binds, ops.put(memo, key, s), memo)
    return verdict, memo2


def variadic_step(ops, b, M, has_prev, pb, P, bc_ok, bc_val):
    """'*name' occurrence with flag b and matched axes M against the previous binding
    (pb, P) if has_prev.  bc_ok/bc_val: the broadcast of (M, P) (numpy contract).
    -> (accept: bool, store: bool, new_b, new_shape)"""
    both = ops.and_(pb, b)
    prev_only = ops.and_(pb, ops.not_(b))
    new_only = ops.and_(ops.not_(pb), b)
    accept_bound = ops.ite(
        both,
        bc_ok,
        ops.ite(
            prev_only,
            ops.and_(bc_ok, ops.seq_eq(bc_val, M)),
            ops.ite(new_only, ops.and_(bc_ok, ops.seq_eq(bc_val, P)), ops.seq_eq(M, P)),
        ),
    )
    accept = ops.or_(ops.not_(has_prev), accept_bound)
    # what is stored on acceptance
    store = ops.or_(ops.not_(has_prev), ops.and_(accept_bound, pb))
    new_shape = ops.ite_seq(ops.not_(has_prev), M, bc_val)
    return accept, store, b, new_shape


# ---------------------------------------------------------------------------- PyOps
class PyOps:
    """concrete evaluation. dims are tuples: ('_anonymous_dim',) ('_NamedDim', name, bc, tp)
    ('_FixedDim', size, bc) ('_SymbolicDim', elem, bc) ('_anonymous_variadic_dim',)
    ('_NamedVariadicDim', name, bc, tp). memo: dict. eval hooks supplied by the caller."""

    FIELDS = {
        "_NamedDim": ["name", "broadcastable", "treepath"],
        "_NamedVariadicDim": ["name", "broadcastable", "treepath"],
        "_FixedDim": ["size", "broadcastable"],
        "_SymbolicDim": ["elem", "broadcastable"],
    }
    DEFAULTS = {"name": "", "broadcastable": False, "treepath": False, "size": 0, "elem": ""}

    def __init__(self, label=None, eval_fstring=None, eval_expr=None):
        self._label = label
        self._eval_fstring = eval_fstring
        self._eval_expr = eval_expr

    def int(self, n):
        return n

    def add(self, a, b):
        return a + b

    def eq(self, a, b):
        return a == b

    def seq_eq(self, a, b):
        return tuple(a) == tuple(b)

    def and_(self, *xs):
        return all(xs)

    def or_(self, *xs):
        return any(xs)

    def not_(self, x):
        return not x

    def ite(self, c, a, b):
        return a if c else b

    ite_memo = ite
    ite_seq = ite

    def concat(self, a, b):
        return a + b

    def is_cls(self, d, c):
        return d[0] == c

    def field(self, d, c, f):
        if d[0] == c:
            return d[1 + self.FIELDS[c].index(f)]
        return self.DEFAULTS[f]

    def has_label(self):
        return self._label is not None

    def label(self):
        return self._label if self._label is not None else ""

    def has(self, m, k):
        return k in m

    def get(self, m, k):
        return m.get(k, 0)

    def put(self, m, k, v):
        m2 = dict(m)
        m2[k] = v
        return m2

    def eval_fstring(self, elem):
        return self._eval_fstring(elem)

    def eval_expr(self, src, memo):
        return self._eval_expr(src, memo)


def dims_fold_py(ops, dims, shape, memo):
    """left fold of axis_step; stops at the first non-accept verdict."""
    for d, s in zip(dims, shape):
        v, memo2 = axis_step(ops, d, s, memo)
        if v != ACCEPT:
            return v, memo
        memo = memo2
    return ACCEPT, memo


# ---------------------------------------------------------------------------- concrete ShapeMatch (replay oracle)
def broadcast_py(a, b):
    """right-aligned broadcasting of two shapes; None if incompatible (own definition, not numpy's)."""
    out = []
    for i in range(1, max(len(a), len(b)) + 1):
        x = a[-i] if i <= len(a) else 1
        y = b[-i] if i <= len(b) else 1
        if x == y or y == 1:
            out.append(x)
        elif x == 1:
            out.append(y)
        else:
            return None
    return tuple(reversed(out))


def shape_match_py(ops, dims, iv, shape, sigma, nu):
    """-> (verdict, sigma', nu') following the C01 statement; verdict codes as above."""
    shape = tuple(shape)
    n = len(dims)
    if iv is None:
        if len(shape) != n:
            return REJECT, sigma, nu
        v, s2 = dims_fold_py(ops, dims, shape, sigma)
        return v, s2, nu
    if len(shape) < n - 1:
        return REJECT, sigma, nu
    c = n - iv - 1
    v, s1 = dims_fold_py(ops, dims[:iv], shape[:iv], sigma)
    if v != ACCEPT:
        return v, sigma, nu
    if c:
        v, s1 = dims_fold_py(ops, dims[iv + 1:], shape[len(shape) - c:], s1)
        if v != ACCEPT:
            return v, sigma, nu
    mid = shape[iv:len(shape) - c]
    d = dims[iv]
    if d[0] == "_anonymous_variadic_dim":
        return ACCEPT, s1, nu
    _, name, b, tp = d
    if tp and not ops.has_label():
        return ANNOT, sigma, nu
    key = (ops.label() + name) if tp else name
    has_prev = key in nu
    pb, P = nu.get(key, (False, ()))
    bc = broadcast_py(mid, P) if has_prev else None
    accept, store, nb, nshape = variadic_step(ops, b, mid, has_prev, pb, tuple(P), bc is not None, bc if bc is not None else ())
    if not accept:
        return REJECT, sigma, nu
    nu2 = dict(nu)
    if store:
        nu2[key] = (nb, tuple(nshape))
    return ACCEPT, s1, nu2
