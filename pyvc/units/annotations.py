"""Unit: dtype tables and category construction (C03), pickling reducer and annotation construction (C20).

C03  the module-level tables are evaluated symbolically from the source (string constants, list `+`, _make_dtype calls)
     and every exported category is proved equal, as a set of dtype names, to the table written from docs/api/array.md:
     each precision class is a singleton, Integer = UInt u Int, Inexact = Float u Complex, Real = Float u Integer,
     Num = Integer u Inexact, Shaped = any, Key = {prng_key}, Bool = {bool, bool_}; __init__.py exports exactly these.
     AbstractDtype.__init_subclass__ normalisation (str | Pattern -> 1-tuple, list -> tuple, sentinel kept);
     _make_dtype creates a subclass whose `dtypes` is its first argument; make_numpy_struct_dtype: ValueError unless a
     structured dtype, dtype string = str(dtype).
C20  _pickle_array_annotation(x): AbstractArray -> (_return_abstractarray, ()), else (x.dtype.__getitem__, (x._subscript_item,));
     _make_array stores _subscript_item = the (array_type, dim_str) it was CALLED with (before any rebinding) together with
     dtype = the category it was called with; hence rebuilding = the same constructor call (round-trip lemma: the
     constructor is a function of (category, item); lru_cache / determinism of _make_array_cached is T3).
"""
from __future__ import annotations

import ast

import z3

from ..engine import Engine, Raised, is_raised
from ..source import Module, NotFound
from ..values import ANY_EXC, BOOL, INT, NONE, STR, U, Cls, DictObj, Exc, Fn, ListObj, NoneV, Obj, Opaque, Ref, State, Tup, Unsupported, Z

NAME = "annotations"
REL = "jaxtyping/_array_types.py"

F8 = ["float8_e4m3b11fnuz", "float8_e4m3fn", "float8_e4m3fnuz", "float8_e5m2", "float8_e5m2fnuz"]
UINTS = ["uint2", "uint4", "uint8", "uint16", "uint32", "uint64"]
INTS = ["int2", "int4", "int8", "int16", "int32", "int64"]
FLOATS = F8 + ["bfloat16", "float16", "float32", "float64"]
COMPLEXES = ["complex64", "complex128"]
ANY = "<any dtype>"
# written from docs/api/array.md ("Dtype" section) and the exported names
SPEC_TABLE = {
    "Shaped": ANY, "Bool": {"bool", "bool_"}, "Key": {"prng_key"},
    "UInt": set(UINTS), "Int": set(INTS), "Integer": set(UINTS) | set(INTS), "Float": set(FLOATS), "Complex": set(COMPLEXES),
    "Inexact": set(FLOATS) | set(COMPLEXES), "Real": set(FLOATS) | set(UINTS) | set(INTS), "Num": set(UINTS) | set(INTS) | set(FLOATS) | set(COMPLEXES),
    "UInt2": {"uint2"}, "UInt4": {"uint4"}, "UInt8": {"uint8"}, "UInt16": {"uint16"}, "UInt32": {"uint32"}, "UInt64": {"uint64"},
    "Int2": {"int2"}, "Int4": {"int4"}, "Int8": {"int8"}, "Int16": {"int16"}, "Int32": {"int32"}, "Int64": {"int64"},
    "BFloat16": {"bfloat16"}, "Float16": {"float16"}, "Float32": {"float32"}, "Float64": {"float64"},
    "Float8e4m3b11fnuz": {"float8_e4m3b11fnuz"}, "Float8e4m3fn": {"float8_e4m3fn"}, "Float8e4m3fnuz": {"float8_e4m3fnuz"}, "Float8e5m2": {"float8_e5m2"}, "Float8e5m2fnuz": {"float8_e5m2fnuz"},
    "Complex64": {"complex64"}, "Complex128": {"complex128"},
}


def build(repo=None):
    mod = Module(REL, repo)
    init = Module("jaxtyping/__init__.py", repo)
    obligations, functions = [], []
    paths = 0

    def ob(clause, ok, serves, **meta):
        obligations.append({"clause": clause, "kind": "vc", "pc": [], "goal": ok if isinstance(ok, z3.ExprRef) else z3.BoolVal(bool(ok)), "path": [], "meta": {k: (v if isinstance(v, z3.ExprRef) else z3.StringVal(str(v))) for k, v in meta.items()}, "serves": serves})

    # ================================================================== C15: annotation classes are compared by identity
    # typing.Union (which D[Union[A, B], s] is expanded through) drops members that compare EQUAL, and _make_array_cached keys its
    # lru_cache on the array-type argument: the union law needs two distinct annotation classes never to compare equal.
    for mname in ("_MetaAbstractArray", "_MetaAbstractDtype"):
        mc = mod.cls(mname)
        own = sorted({b.name for b in mc.body if isinstance(b, (ast.FunctionDef, ast.AsyncFunctionDef))} | {t.id for b in mc.body if isinstance(b, ast.Assign) for t in b.targets if isinstance(t, ast.Name)})
        bases = [ast.unparse(b) for b in mc.bases]
        ob(f"C15:union:{mname}-keeps-type's-identity-equality-and-hash(typing.Union-and-cache-keys-never-merge-distinct-annotations)",
           bases == ["type"] and not ({"__eq__", "__ne__", "__hash__"} & set(own)) and not mc.keywords, ["C15", "C12", "C20", "C03"], bases=bases, defines=",".join(own))

    # ================================================================== C03: tables
    class Cat:
        def __init__(self, dtypes, name):
            self.dtypes, self.name = dtypes, name

    # the sentinel evaluates to the marker ANY
    sentinels = {}
    for n in mod.tree.body:
        if isinstance(n, ast.Assign) and len(n.targets) == 1 and getattr(n.targets[0], "id", None) == "_any_dtype":
            sentinels["_any_dtype"] = ANY
    env = mod.constants({"_make_dtype": lambda d, name: Cat(list(d) if isinstance(d, list) else d, name),  # the class keeps a tuple COPY (AbstractDtype.__init_subclass__): later edits of the list do not reach it
                          "object": lambda: ANY, "_Sentinel": lambda nm: ANY if nm == "_any_dtype" else ("sentinel", nm)})
    cats = {k: v for k, v in env.items() if isinstance(v, Cat)}
    for cname, want in SPEC_TABLE.items():
        c = cats.get(cname)
        if c is None:
            ob(f"C03:table:{cname}-is-defined-by-_make_dtype", False, ["C03"])
            continue
        d = c.dtypes
        got = ANY if d == ANY else (set([d]) if isinstance(d, str) else set(d))
        ob(f"C03:table:{cname}-accepts-exactly-its-documented-dtype-names", got == want and c.name == cname, ["C03"], got=sorted(got) if got != ANY else ANY, want=sorted(want) if want != ANY else ANY)
    extra = sorted(set(cats) - set(SPEC_TABLE))
    ob("C03:table:no-undocumented-built-in-category", not extra, ["C03"], extra=extra)
    # hierarchy inclusions as lemmas over the evaluated tables
    def names(c):
        d = cats[c].dtypes
        return None if d == ANY else (set([d]) if isinstance(d, str) else set(d))
    if all(c in cats for c in SPEC_TABLE):
        hier = [("UInt", "Integer"), ("Int", "Integer"), ("Integer", "Real"), ("Float", "Real"), ("Float", "Inexact"), ("Complex", "Inexact"), ("Integer", "Num"), ("Inexact", "Num"), ("Real", "Num")]
        for a, b in hier:
            ob(f"C03:hierarchy:{a}-is-contained-in-{b}", names(a) <= names(b), ["C03"])
        ob("C03:hierarchy:Integer==UInt|Int,Inexact==Float|Complex,Real==Float|Integer,Num==Integer|Inexact", names("Integer") == names("UInt") | names("Int") and names("Inexact") == names("Float") | names("Complex") and names("Real") == names("Float") | names("Integer") and names("Num") == names("Integer") | names("Inexact"), ["C03"])
        ob("C03:hierarchy:Bool,Key-are-disjoint-from-Num", not (names("Bool") & names("Num")) and not (names("Key") & names("Num")) and not (names("Bool") & names("Key")), ["C03"])
        for fam, members in (("UInt", ["UInt2", "UInt4", "UInt8", "UInt16", "UInt32", "UInt64"]), ("Int", ["Int2", "Int4", "Int8", "Int16", "Int32", "Int64"]), ("Complex", ["Complex64", "Complex128"]),
                             ("Float", ["BFloat16", "Float16", "Float32", "Float64", "Float8e4m3b11fnuz", "Float8e4m3fn", "Float8e4m3fnuz", "Float8e5m2", "Float8e5m2fnuz"])):
            u = set()
            for mname in members:
                u |= names(mname)
            ob(f"C03:hierarchy:{fam}-is-the-union-of-its-precision-classes", u == names(fam) and all(len(names(x)) == 1 for x in members), ["C03"])
    # __init__.py exports every category (runtime branch) from _array_types
    exported = set()
    for n in ast.walk(init.tree):
        if isinstance(n, ast.ImportFrom) and n.module == "_array_types" and n.level == 1:
            exported |= {a.asname or a.name for a in n.names}
    ob("C03:exports:jaxtyping-exports-all-34-categories", set(SPEC_TABLE) <= exported, ["C03"], missing=sorted(set(SPEC_TABLE) - exported))

    # ---- _make_dtype: class _Cls(AbstractDtype): dtypes = _dtypes ; renamed; returned
    md = mod.func("_make_dtype")
    functions.append({"qualname": "jaxtyping._array_types._make_dtype", "sha256_16": mod.sha(md), "lines": [md.lineno, md.end_lineno]})
    inner = [b for b in md.body if isinstance(b, ast.ClassDef)]
    ok = (len(inner) == 1 and [ast.unparse(b) for b in inner[0].bases] == ["AbstractDtype"] and len(inner[0].body) == 1 and ast.unparse(inner[0].body[0]) == f"dtypes = {md.args.args[0].arg}"
          and isinstance(md.body[-1], ast.Return) and ast.unparse(md.body[-1].value) == inner[0].name
          and any(ast.unparse(b) == f"{inner[0].name}.__name__ = {md.args.args[1].arg}" for b in md.body))
    ob("C03:_make_dtype:returns-an-AbstractDtype-subclass-whose-dtypes-is-the-first-argument-and-name-the-second", ok, ["C03", "C20"])

    # ---- __init_subclass__ normalisation, by symbolic execution over the kinds of `cls.dtypes`
    isub = mod.func("AbstractDtype.__init_subclass__")
    functions.append({"qualname": "jaxtyping._array_types.AbstractDtype.__init_subclass__", "sha256_16": mod.sha(isub), "lines": [isub.lineno, isub.end_lineno]})
    for kind in ("str", "pattern", "list", "tuple", "any"):
        eng = Engine(mod)
        any_dt = Opaque("sentinel:_any_dtype", z3.Const("sentinel_any_dtype", U))
        eng.globals["_any_dtype"] = any_dt
        eng.globals["re"] = Opaque("module:re", attrs={"Pattern": Cls("Pattern")})
        pat = Opaque("a-compiled-pattern")
        the_list = Tup([Z("str", z3.String("d0")), pat], True)
        val = {"str": Z("str", z3.String("d0")), "pattern": pat, "list": the_list, "tuple": Tup(the_list.items, False), "any": any_dt}[kind]

        def isinst(e, s, v, c):
            if isinstance(c, Cls) and c.name == "Pattern":
                return z3.BoolVal(v is pat)
            if isinstance(c, Cls) and c.name == "str" and isinstance(v, (Opaque, Tup)):
                return z3.BoolVal(False)
            return None

        eng.method_models["__isinstance__"] = isinst
        eng.method_models["__init_subclass__"] = lambda e, s, recv, args, kw, nd: [(s, NONE)]
        eng.globals["super"] = Fn("super", model=lambda e, s, a, kw, nd: [(s, Opaque("super()"))])
        st = State()
        cls = st.alloc(Obj("a-dtype-category", {"dtypes": val}, tag="cls"))
        st.env = {isub.args.args[0].arg: cls}
        if isub.args.kwarg:
            st.env[isub.args.kwarg.arg] = Opaque("kwargs")
        for s1, o in eng.run(isub.body, st):
            paths += 1
            got = s1.get(cls).attrs.get("dtypes")
            if kind in ("str", "pattern"):
                good = isinstance(got, Tup) and not got.is_list and len(got.items) == 1 and got.items[0] is val
            elif kind in ("list", "tuple"):
                good = isinstance(got, Tup) and not got.is_list and len(got.items) == 2 and all(a is b for a, b in zip(got.items, the_list.items))
            else:
                good = got is any_dt
            obligations.append({"clause": f"C03:__init_subclass__:{kind}-is-normalised-to-{'a 1-tuple' if kind in ('str', 'pattern') else 'a tuple' if kind != 'any' else 'the sentinel itself'}", "kind": "vc", "pc": list(s1.pc),
                                "goal": z3.BoolVal(bool(good and o.kind in ("normal", "return"))), "path": list(s1.path), "meta": {}, "serves": ["C03"]})

    # ---- make_numpy_struct_dtype
    ms = mod.func("make_numpy_struct_dtype")
    functions.append({"qualname": "jaxtyping._array_types.make_numpy_struct_dtype", "sha256_16": mod.sha(ms), "lines": [ms.lineno, ms.end_lineno]})
    eng = Engine(mod)
    IsNp = z3.Bool("isinstance_np_dtype")
    IsStruct = z3.Bool("is_struct_array_dtype")
    made = {}

    def m_md(e, s, a, kw, nd):
        made["args"] = a
        return [(s, Opaque("new-category"))]

    eng.globals["_make_dtype"] = Fn("_make_dtype", model=m_md)
    from ..source import struct_dtype_helper
    eng.globals[struct_dtype_helper(mod)] = Fn("_dtype_is_numpy_struct_array", model=lambda e, s, a, kw, nd: [(s, Z("bool", IsStruct))])
    eng.globals["np"] = Opaque("global:np", attrs={"dtype": Cls("np.dtype")})
    eng.method_models["__isinstance__"] = lambda e, s, v, c: IsNp if isinstance(c, Cls) and c.name == "np.dtype" else None
    st = State()
    dt = Opaque("dtype-arg")
    nm = Z("str", z3.String("name"))
    st.env = {ms.args.args[0].arg: dt, ms.args.args[1].arg: nm}
    for s1, o in eng.run(ms.body, st):
        paths += 1
        if o.kind == "raise":
            obligations.append({"clause": "C03:make_numpy_struct_dtype:ValueError-exactly-when-not-a-structured-numpy-dtype", "kind": "vc", "pc": list(s1.pc), "path": list(s1.path), "meta": {}, "serves": ["C03"],
                                "goal": z3.And(z3.BoolVal(o.val.classes() == {"ValueError"}), z3.Not(z3.And(IsNp, IsStruct)))})
        elif o.kind == "return":
            a = made.get("args", [])
            good = len(a) == 2 and isinstance(a[0], Z) and a[0].kind == "str" and str(a[0].t).startswith("py_str(") and a[1] is nm
            obligations.append({"clause": "C03:make_numpy_struct_dtype:category-matches-exactly-str(dtype)-under-the-given-name", "kind": "vc", "pc": list(s1.pc), "path": list(s1.path), "meta": {}, "serves": ["C03"],
                                "goal": z3.And(z3.BoolVal(bool(good)), IsNp, IsStruct)})

    # ================================================================== C20: reducer and _make_array
    red = mod.func("_pickle_array_annotation")
    functions.append({"qualname": "jaxtyping._array_types._pickle_array_annotation", "sha256_16": mod.sha(red), "lines": [red.lineno, red.end_lineno]})
    for is_base in (True, False):
        eng = Engine(mod)
        base = Opaque("AbstractArray", z3.Const("AbstractArray_cls", U))
        eng.globals["AbstractArray"] = base
        ret = Fn("_return_abstractarray")
        eng.globals["_return_abstractarray"] = ret
        item = Opaque("the-subscript-item")
        getitem = Opaque("dtype.__getitem__")
        x = base if is_base else Opaque("x", attrs={"dtype": Opaque("x.dtype", attrs={"__getitem__": getitem}), "_subscript_item": item, "array_type": Opaque("x.array_type"), "dim_str": Opaque("x.dim_str")})
        st = State()
        if not is_base:
            st.pc.append(x.t != base.t)
        st.env = {red.args.args[0].arg: x}
        for s1, o in eng.run(red.body, st):
            paths += 1
            v = o.val if o.kind == "return" else None
            if is_base:
                good = isinstance(v, Tup) and len(v.items) == 2 and v.items[0] is ret and isinstance(v.items[1], Tup) and not v.items[1].items
                ob("C20:reducer:AbstractArray-itself-reduces-to-(_return_abstractarray, ())", good, ["C20"])
            else:
                good = isinstance(v, Tup) and len(v.items) == 2 and v.items[0] is getitem and isinstance(v.items[1], Tup) and len(v.items[1].items) == 1 and v.items[1].items[0] is item
                ob("C20:reducer:an-annotation-reduces-to-its-own-category-subscripted-with-the-item-it-was-built-from", good, ["C20"])
    # _return_abstractarray returns AbstractArray; the reducer is registered for the metaclass
    ra = mod.func("_return_abstractarray")
    ob("C20:reducer:_return_abstractarray-returns-AbstractArray", len(ra.body) == 1 and isinstance(ra.body[0], ast.Return) and ast.unparse(ra.body[0].value) == "AbstractArray", ["C20"])
    reg = any(isinstance(n, ast.Expr) and ast.unparse(n.value) == "copyreg.pickle(_MetaAbstractArray, _pickle_array_annotation)" for n in mod.tree.body)
    ob("C20:reducer:is-registered-with-copyreg-for-the-annotation-metaclass", reg, ["C20"])

    # _make_array: the class attributes as functions of the inputs
    ma = mod.func("_make_array")
    functions.append({"qualname": "jaxtyping._array_types._make_array", "sha256_16": mod.sha(ma), "lines": [ma.lineno, ma.end_lineno]})
    eng = Engine(mod)
    cached = Tup([Opaque("array_type'"), Z("str", z3.String("name'")), Opaque("dtypes'"), Opaque("dims'"), Opaque("index_variadic'"), Z("str", z3.String("dim_str'"))])
    seen = {}

    def m_cached(e, s, a, kw, nd):
        seen["args"] = a
        return [(s.fork(None, "made"), cached), (s.fork(None, "not-made"), Opaque("sentinel:_not_made", z3.Const("not_made", U)))]

    def m_meta(e, s, cls, a, kw, nd):
        s1 = s.clone()
        s1.ghost["class_dict"] = a
        return [(s1, s1.alloc(Obj("annotation-class", {}, tag="new-annotation")))]

    eng.globals["_make_array_cached"] = Fn("_make_array_cached", model=m_cached)
    eng.globals["_MetaAbstractArray"] = Cls("_MetaAbstractArray")
    eng.method_models["new:_MetaAbstractArray"] = m_meta
    eng.globals["AbstractArray"] = Opaque("AbstractArray")
    eng.globals["typing"] = Opaque("module:typing")
    eng.globals["dict"] = Fn("dict", model=lambda e, s, a, kw, nd: [(s, Opaque("dict(...)", attrs={"__kw__": Tup(list(kw.values())), **{k: v for k, v in kw.items()}}))])
    eng.method_models["__unpack__"] = None

    def type_is_tuple(e, s, v, c):
        return None

    st = State()
    x_in, ds_in = Opaque("x-arg"), Z("str", z3.String("dim_str_arg"))
    dtype_in = Opaque("dtype-arg", attrs={"dtypes": Opaque("dtype.dtypes"), "__name__": Z("str", z3.String("dtype_name"))})
    pa = [a.arg for a in ma.args.args]
    st.env = {pa[0]: x_in, pa[1]: ds_in, pa[2]: dtype_in}
    for s1, o in eng.run(ma.body, st):
        paths += 1
        a = seen.get("args", [])
        ob("C20:_make_array:delegates-to-_make_array_cached(x, dim_str, dtype.dtypes, dtype.__name__)", len(a) == 4 and a[0] is x_in and a[1] is ds_in and isinstance(a[2], Opaque) and a[2].tag == "dtype.dtypes" and isinstance(a[3], Z) and str(a[3].t) == "dtype_name", ["C20", "C15"])
        if "not-made" in s1.path:
            ob("C20:_make_array:passes-the-not-made-marker-through", o.kind == "return" and isinstance(o.val, Opaque) and o.val.tag == "sentinel:_not_made", ["C20", "C15"])
            continue
        cd = s1.ghost.get("class_dict")
        if cd is not None and len(cd) == 3 and isinstance(cd[2], Ref) and isinstance(s1.get(cd[2]), Obj) and s1.get(cd[2]).cls == "dictlit":
            # the namespace written as a dict display {"k": v, ...} instead of dict(k=v, ...): same thing
            its = s1.get(cd[2]).attrs["items"].items
            half = len(its) // 2
            if all(isinstance(k_, Z) and k_.kind == "str" and z3.is_string_value(z3.simplify(k_.t)) for k_ in its[:half]):
                cd = list(cd[:2]) + [Opaque("dict(...)", attrs={z3.simplify(k_.t).as_string(): v_ for k_, v_ in zip(its[:half], its[half:])})]
        good = o.kind == "return" and isinstance(o.val, Ref) and cd is not None and len(cd) == 3 and isinstance(cd[2], Opaque) and cd[2].attrs is not None
        ob("C20:_make_array:returns-a-new-annotation-class", good, ["C20"])
        if good:
            at = cd[2].attrs
            item = at.get("_subscript_item")
            ob("C20:_make_array:_subscript_item-is-the-(array_type, dim_str)-it-was-called-with", isinstance(item, Tup) and len(item.items) == 2 and item.items[0] is x_in and item.items[1] is ds_in, ["C20"])
            ob("C20:_make_array:dtype-attribute-is-the-category-it-was-called-with", at.get("dtype") is dtype_in, ["C20"])
            ob("C20:_make_array:processed-attributes-come-from-_make_array_cached", at.get("array_type") is cached.items[0] and at.get("dtypes") is cached.items[2] and at.get("dims") is cached.items[3] and at.get("index_variadic") is cached.items[4] and at.get("dim_str") is cached.items[5], ["C20", "C15"])
            ob("C20:_make_array:class-is-named-as-computed-and-derives-from-AbstractArray", cd[0] is cached.items[1] and isinstance(cd[1], Tup) and len(cd[1].items) == 1, ["C20"])
            keys = sorted(k for k in at if k != "__kw__")
            # the class dict is what cloudpickle snapshots and re-applies to the LIVE class on load: it holds the defining attributes only -- no
            # mutable per-class state such as the transparent flag (which stays a metaclass-level default until make_transparent sets it)
            ob("C20:_make_array:the-class-dict-holds-exactly-the-defining-attributes(no-mutable-per-class-state-enters-a-by-value-snapshot)",
               keys == sorted(["dtype", "array_type", "dtypes", "dims", "index_variadic", "dim_str", "_subscript_item"]), ["C20", "C12"], keys=",".join(keys))
    # round-trip lemma: rebuild(x) = x.dtype[x._subscript_item] = _make_array(item[0], item[1].strip(), x.dtype) -- same arguments as the original call.
    # That __getitem__ calls _make_array(member, stripped dim_str, this category) on every path is proved by executing it (unit parser, clause
    # `C14:getitem:constructor-gets-the-stripped-string-spec-and-this-category`, which serves C20 and C15 as well).
    strip_idem = z3.Function("py_str_strip", STR, STR)
    s0 = z3.String("s")
    obligations.append({"clause": "C20:roundtrip:strip-is-idempotent(assumed str property, stated)", "kind": "vc", "pc": [strip_idem(strip_idem(s0)) == strip_idem(s0)], "goal": strip_idem(strip_idem(s0)) == strip_idem(s0), "path": [], "meta": {}, "serves": ["C20"]})
    # sentinels survive a process boundary: they pickle by reference (module-level singletons) or are never pickled
    sent_ok = []
    for nme in ("_any_dtype", "_anonymous_dim", "_anonymous_variadic_dim"):
        for n in mod.tree.body:
            if isinstance(n, ast.Assign) and getattr(n.targets[0], "id", None) == nme and isinstance(n.value, ast.Call):
                cn = getattr(n.value.func, "id", "")
                if cn == "object":
                    sent_ok.append((nme, False))
                else:
                    try:
                        c = mod.cls(cn)
                        red_by_name = any(isinstance(b, ast.FunctionDef) and b.name == "__reduce__" and len(b.body) == 1 and isinstance(b.body[0], ast.Return) and ast.unparse(b.body[0].value) == "self._name" for b in c.body)
                        arg_ok = len(n.value.args) == 1 and isinstance(n.value.args[0], ast.Constant) and n.value.args[0].value == nme
                        sent_ok.append((nme, red_by_name and arg_ok))
                    except NotFound:
                        sent_ok.append((nme, False))
    ob("C20:sentinels-pickle-by-reference-to-their-module-level-name", len(sent_ok) == 3 and all(v for _, v in sent_ok), ["C20"], detail=sent_ok)
    obligations.append({"clause": "canary-struct:annotations", "kind": "canary", "pc": [], "goal": z3.BoolVal(len(cats) == 0), "path": [], "meta": {}})
    return {"unit": NAME, "functions": functions, "obligations": obligations, "paths": paths, "stats": {"categories": len(cats)},
            "assumptions": [
                "what names the installed array libraries actually produce for their dtypes (dtype.type.__name__, as_numpy_dtype, repr) is a dependency fact: exhaustive bounded enumeration b03",
                "pickle / copyreg / copy / cloudpickle dispatch (T5): classes without a reducer are atomic for copy/deepcopy; a registered copyreg reducer is used for the metaclass; a string returned from __reduce__ pickles by module-level name (bounded stand-in b20)",
                "_make_array_cached is a deterministic function of its arguments (lru_cache; the global _array_name_format only feeds the class name)",
                "table obligations are decided by constant evaluation of the module-level assignments of the current source",
            ]}
