"""b14_dimstr -- bounded stand-in for C14 (the dim-string language).

For every enumerated dim specification `Float[np.ndarray, spec]` is built on the real jaxtyping and compared with an
independent reference parser written from docs/api/array.md and the C14 statement:

  non-ValueError   building either succeeds or raises ValueError, nothing else (all specs, incl. non-strings)
  legality         ValueError exactly for the documented illegal forms (specs whose legality the statement fixes)
  meaning          the acceptance vector of a legal annotation over 40 probe shapes, after `foo` was bound to 2 in the
                   same jaxtyped('context'), equals the reference meaning
  modifier-order   permuting the modifier characters / the position of the `doc=` prefix of a token changes neither
                   accept/reject-at-build nor the parsed `.dims` / `.index_variadic`
  doc-prefix       dropping a `doc=` prefix changes nothing;   ellipsis: '...' and '*_' build the same annotation
  whitespace       extra leading / trailing / repeated spaces change nothing
"""
import itertools
import os
import random
import re
import sys
import time
from multiprocessing import get_context

sys.path.insert(0, os.path.dirname(os.path.abspath(__file__)))
import _common  # noqa: E402

MODS = "#*_?"
BASES = ["foo", "3", "foo+1", "", "..."]
NONSTRING = [3, None, ("a",), b"a", 3.5, ["a"], {"a": 1}, {"a"}, bytearray(b"a"), ["a", "b"]]  # incl. unhashable ones: rejected before any cache lookup
# documented illegal (and neighbouring legal) forms that the token grammar below cannot produce
EXTRA = [
    ("foo,bar", "illegal"), ("foo, bar", "illegal"), ("3,3", "illegal"), ("foo,", "illegal"),
    ("foo#", "illegal"), ("3#", "illegal"), ("foo bar#", "illegal"), ("foo+1#", "illegal"),
    ("*foo *bar", "illegal"), ("... ...", "illegal"), ("*foo ...", "illegal"), ("foo ... bar ...", "illegal"),
    ("", "legal"), ("   ", "legal"), ("foo bar", "legal"), ("rows=3 cols=4", "legal"), ("... foo 3 bar", "legal"),
]


# --------------------------------------------------------------------------------------------------------
# Reference parser (from the docs and the statement; works on the TEXT of the specification)
# --------------------------------------------------------------------------------------------------------
_DOC_PREFIX = re.compile(r"[A-Za-z][A-Za-z0-9]*=")


def ref_token(text):
    """-> (verdict, meaning, is_multi, uses_single_foo)
    verdict: 'legal' | 'illegal' | 'unspecified' (the statement does not fix whether the form is legal)
    meaning (only if legal): ('anon',) ('int', n, bc) ('name', id, bc, tree) ('sym', expr, bc)
                             ('multi', id|None, bc, tree)"""
    if "," in text and "(" not in text:
        return "illegal", None, False, False  # comma-separated axes
    if "..." in text:
        if text == "...":
            return "legal", ("multi", None, False, False), True, False
        if _DOC_PREFIX.fullmatch(text[:-3]):
            return "unspecified", None, True, False  # 'name=' is ignored  vs  '...' takes no modifiers
        return "illegal", None, True, False
    seen = {m: 0 for m in MODS}
    rest = text
    while True:
        if rest[:1] in tuple(MODS):
            seen[rest[0]] += 1
            rest = rest[1:]
            continue
        m = _DOC_PREFIX.match(rest)
        if m:
            rest = rest[m.end():]
            continue
        break
    is_multi = seen["*"] > 0
    if rest == "":
        if text == "_":
            return "legal", ("anon",), False, False
        return "unspecified", None, is_multi, False  # empty base with modifiers / a bare 'name='
    if text.endswith("#"):
        return "illegal", None, is_multi, False
    if any(n > 1 for n in seen.values()):
        return "illegal", None, is_multi, False  # repeated modifier
    bc, multi, anon, tree = (seen[c] == 1 for c in MODS)
    if re.fullmatch(r"[0-9]+", rest):
        if multi or anon or tree:
            return "illegal", None, is_multi, False
        return "legal", ("int", int(rest), bc), False, False
    if rest.isidentifier():
        if anon:
            if bc:
                return "illegal", None, is_multi, False  # '#' cannot apply to an unchecked axis
            if tree:
                return "unspecified", None, is_multi, False  # '?' on an unchecked axis: not fixed by the statement
            return "legal", (("multi", None, False, False) if multi else ("anon",)), multi, False
        if multi:
            return "legal", ("multi", rest, bc, tree), True, False
        return "legal", ("name", rest, bc, tree), False, True
    # anything else is a symbolic expression
    if multi or anon or tree:
        return "illegal", None, is_multi, False
    return "legal", ("sym", rest, bc), False, True


def ref_spec(spec):
    """-> (verdict, meanings)"""
    if not isinstance(spec, str):
        return "illegal", None
    toks = spec.split(" ")
    toks = [t for t in toks if t != ""]
    res = [ref_token(t) for t in toks]
    if any(r[0] == "illegal" for r in res):
        return "illegal", None
    if sum(1 for r in res if r[2]) > 1:
        return "illegal", None  # two multi-axis specifiers
    if any(r[0] == "unspecified" for r in res):
        return "unspecified", None
    return "legal", [r[1] for r in res]


PROBES = [s for r in range(4) for s in itertools.product((1, 2, 3), repeat=r)]


def ref_accepts(meanings, shape, env):
    """Reference matcher for a legal spec without '?' tokens; env = sizes already bound ({'foo': 2} or {})."""
    k = None
    for i, m in enumerate(meanings):
        if m[0] == "multi":
            k = i
    if k is None:
        if len(shape) != len(meanings):
            return False
        pairs = list(zip(meanings, shape))
    else:
        nsuf = len(meanings) - k - 1
        if len(shape) < len(meanings) - 1:
            return False
        pairs = list(zip(meanings[:k], shape[:k])) + list(zip(meanings[k + 1:], shape[len(shape) - nsuf:] if nsuf else ()))
    env = dict(env)
    for m, size in pairs:
        if m[0] == "anon":
            continue
        if m[0] == "int":
            ok = size == m[1]
        elif m[0] == "name":
            if m[2] and size == 1:
                continue
            if m[1] not in env:
                env[m[1]] = size
            ok = size == env[m[1]]
        else:
            assert m[0] == "sym" and m[1] == "foo+1" and "foo" in env
            ok = size == env["foo"] + 1
        if not ok and not (m[2] and size == 1):
            return False
    return True  # a single (first) use of '*name' / '...' matches any run of axes


# --------------------------------------------------------------------------------------------------------
# The token grammar of the bound
# --------------------------------------------------------------------------------------------------------
def make_token(mods, docpos, base):
    if docpos is None:
        return mods + base
    return mods[:docpos] + "doc=" + mods[docpos:] + base


def all_tokens():
    out = []
    for k in range(5):
        for mods in itertools.product(MODS, repeat=k):
            mods = "".join(mods)
            for docpos in [None] + list(range(k + 1)):
                for base in BASES:
                    out.append((mods, docpos, base))
    return out


def canon(tok):
    mods, docpos, base = tok
    return ("".join(sorted(mods)), None if docpos is None else 0, base)


# --------------------------------------------------------------------------------------------------------
# Real code
# --------------------------------------------------------------------------------------------------------
G = {}


def prepare():
    import numpy as np
    import jaxtyping
    from jaxtyping import Float, jaxtyped

    G.update(np=np, Float=Float, jaxtyped=jaxtyped, AnnotationError=jaxtyping.AnnotationError)
    G["probe_arrays"] = [np.zeros(s, dtype=np.float32) for s in PROBES]
    G["two"] = np.zeros((2,), dtype=np.float32)
    G["foo"] = Float[np.ndarray, "foo"]
    G["tokens"] = all_tokens()
    legalish = []
    for t in G["tokens"]:
        v = ref_token(make_token(*t))[0]
        if v != "illegal" and not (t[2] == "" and make_token(*t) != "_"):
            legalish.append(t)
    G["legalish"] = legalish
    G["index"] = {t: i for i, t in enumerate(G["tokens"])}
    G["legalish_idx"] = {G["index"][t] for t in legalish}
    G["nonlegalish"] = [t for t in G["tokens"] if G["index"][t] not in G["legalish_idx"]]


def build(spec):
    """-> ('ok', annotation) | ('ValueError', msg) | (<other exception class name>, msg)"""
    try:
        return "ok", G["Float"][G["np"].ndarray, spec]
    except ValueError as e:
        return "ValueError", str(e)[:100]
    except Exception as e:
        return type(e).__name__, str(e)[:100]


def parsed(ann):
    return (getattr(ann, "dims", "<no .dims>"), getattr(ann, "index_variadic", "<no .index_variadic>"))


def stable(x):
    """repr without memory addresses (the anonymous-axis sentinels are plain object()s)"""
    return re.sub(r" at 0x[0-9a-fA-F]+", "", repr(x))


def real_vector(ann, bind):
    out = []
    jaxtyped, two, foo = G["jaxtyped"], G["two"], G["foo"]
    for arr in G["probe_arrays"]:
        try:
            with jaxtyped("context"):
                if bind and not isinstance(two, foo):
                    out.append("prior-binding-rejected")
                    continue
                out.append(bool(isinstance(arr, ann)))
        except Exception as e:
            out.append(type(e).__name__)
    return out


class Acc:
    def __init__(self):
        self.evals = 0
        self.nontrivial = 0
        self.failing = 0
        self.classes = {}

    def fail(self, case, clause, key, **kw):
        self.failing += 1
        cur = self.classes.get(case)
        if cur is None:
            if len(self.classes) >= 400:
                return
            cur = self.classes[case] = [0, None, None]
        cur[0] += 1
        if cur[1] is None or key < cur[1]:
            cur[1] = key
            d = dict(case=case, clause=clause)
            d.update(kw)
            cur[2] = d

    def merge(self, o):
        self.evals += o.evals
        self.nontrivial += o.nontrivial
        self.failing += o.failing
        for c, (n, key, d) in o.classes.items():
            cur = self.classes.get(c)
            if cur is None:
                self.classes[c] = [n, key, d]
            else:
                cur[0] += n
                if key < cur[1]:
                    cur[1], cur[2] = key, d


def snip_build(spec):
    return "import numpy as np\nfrom jaxtyping import Float\nFloat[np.ndarray, %r]" % (spec,)


def snip_pair(a, b):
    return ("import numpy as np\nfrom jaxtyping import Float\n"
            "def show(spec):\n"
            "    try: x = Float[np.ndarray, spec]; return x.dims, x.index_variadic\n"
            "    except Exception as e: return type(e).__name__\n"
            "print(show(%r))\nprint(show(%r))  # must be the same" % (a, b))


def snip_probe(spec, shape, bind):
    return ("import numpy as np\nfrom jaxtyping import Float, jaxtyped\n"
            "with jaxtyped('context'):\n"
            + ("    assert isinstance(np.zeros((2,), np.float32), Float[np.ndarray, 'foo'])\n" if bind else "")
            + "    print(isinstance(np.zeros(%r, np.float32), Float[np.ndarray, %r]))" % (tuple(shape), spec))


def class_id(toks):
    """stable class name of a token sequence: modifiers sorted, doc= marked, base kept"""
    out = []
    for t in toks:
        if isinstance(t, tuple):
            mods, docpos, base = t
            out.append("".join(sorted(mods)) + ("doc=" if docpos is not None else "") + base)
        else:
            out.append(t)
    return " ".join(out) if "".join(out) else "<empty:%d>" % len(out)


def spaced(texts, rng):
    s = " " * rng.randrange(3)
    for k, t in enumerate(texts):
        if k:
            s += " " * rng.randrange(1, 4)
        s += t
    return s + " " * rng.randrange(3)


def check_spec(acc, toks, rng, extra_verdict=None):
    """toks: list of grammar tokens (mods, docpos, base) -- or a raw string for the EXTRA list."""
    if isinstance(toks, str):
        spec, texts, cid = toks, None, toks if toks.strip() else "<blank:%d>" % len(toks)
    else:
        texts = [make_token(*t) for t in toks]
        spec = " ".join(texts)
        cid = class_id(toks)
    key = (len(spec), spec)
    acc.evals += 1
    outcome, ann = build(spec)
    verdict, meanings = ref_spec(spec)
    if extra_verdict is not None and verdict != extra_verdict:
        raise AssertionError("reference parser disagrees with the documented list on %r: %s" % (spec, verdict))
    # -- only ValueError
    if outcome not in ("ok", "ValueError"):
        acc.fail("C14:non-ValueError:" + cid, "non-ValueError", key, input=spec, expected="annotation or ValueError",
                 actual="%s: %s" % (outcome, ann), snippet=snip_build(spec))
        return
    # -- legality
    if verdict != "unspecified":
        acc.nontrivial += 1
        want = "ok" if verdict == "legal" else "ValueError"
        if outcome != want:
            acc.fail("C14:legality:" + cid, "accepted-illegal" if outcome == "ok" else "rejected-legal", key, input=spec,
                     expected=want, actual="%s %s" % (outcome, "" if outcome == "ok" else ann), snippet=snip_build(spec))
            return
    # -- meaning
    if verdict == "legal" and outcome == "ok" and not any(len(m) == 4 and m[3] for m in meanings):
        single_foo = any(m[0] in ("name", "sym") for m in meanings)
        named_multi = any(m[0] == "multi" and m[1] is not None for m in meanings)
        if not (single_foo and named_multi):  # the same name as an axis and as a '*name': not fixed by the statement
            bind = single_foo
            env = {"foo": 2} if bind else {}
            # names other than foo only occur in the EXTRA list; they are bound on first use
            want = [ref_accepts(meanings, s, env) for s in PROBES]
            got = real_vector(ann, bind)
            if want != got:
                k = [i for i in range(len(PROBES)) if want[i] != got[i]][0]
                acc.fail("C14:meaning:" + cid, "meaning", key, input=[spec, list(PROBES[k])], expected=want[k], actual=got[k],
                         snippet=snip_probe(spec, PROBES[k], bind))
                return
    if texts is None:
        return
    # -- metamorphic laws (tokens with an empty base are excluded: a trailing '#' is itself a documented illegal form)
    variants = []
    if all(t[2] != "" for t in toks):
        ctoks = [canon(t) for t in toks]
        if ctoks != list(toks):
            variants.append(("modifier-order", " ".join(make_token(*t) for t in ctoks)))
    if any(t[1] is not None and t[2] not in ("", "...") for t in toks):
        variants.append(("doc-prefix", " ".join(
            make_token(t[0], None if t[2] not in ("", "...") else t[1], t[2]) for t in toks)))
    if "..." in texts:
        variants.append(("ellipsis", " ".join("*_" if t == "..." else t for t in texts)))
    sp = spaced(texts, rng)
    if sp != spec:
        variants.append(("whitespace", sp))
    mine = (outcome, parsed(ann) if outcome == "ok" else None)
    for clause, other in variants:
        o2, a2 = build(other)
        theirs = (o2, parsed(a2) if o2 == "ok" else None)
        if o2 not in ("ok", "ValueError"):
            continue  # reported when that spec is enumerated itself
        if mine != theirs:
            acc.fail("C14:%s:%s" % (clause, cid), clause, key, input=[spec, other], expected="same build result and .dims",
                     actual="%s vs %s" % (stable(mine), stable(theirs)), snippet=snip_pair(spec, other))
            return


def work(task):
    kind = task[0]
    acc = Acc()
    tokens = G["tokens"]
    if kind == "single":
        _, lo, hi, seed = task
        rng = random.Random(seed)
        for t in tokens[lo:hi]:
            check_spec(acc, [t], rng)
    elif kind == "pairs":
        _, lo, hi, seed = task
        rng = random.Random(seed)
        L = G["legalish"]
        for a in L[lo:hi]:
            for b in L:
                check_spec(acc, [a, b], rng)
    elif kind == "triples":
        _, a, lo, hi, seed = task
        rng = random.Random(seed)
        L = G["legalish"]
        for b in L[lo:hi]:
            for c in L:
                check_spec(acc, [L[a], b, c], rng)
    elif kind == "sample":
        # distinct by construction: at least one token is outside the legal-ish set (all-legal-ish sequences are covered
        # exhaustively by S2/S3), tasks partition the first token, and a task never repeats a spec
        _, n, length, seed, part, nparts = task
        rng = random.Random(seed)
        L, NL, index = G["legalish"], G["nonlegalish"], G["index"]
        first = {"L": [t for t in L if index[t] % nparts == part], "NL": [t for t in NL if index[t] % nparts == part],
                 "ALL": tokens[part::nparts]}
        seen = set()
        done = 0
        while done < n:
            forced = rng.randrange(length)
            toks = []
            for k in range(length):
                cls = "NL" if k == forced else ("L" if rng.random() < 0.7 else "ALL")
                if k == 0:
                    toks.append(rng.choice(first[cls] or first["ALL"]))
                else:
                    toks.append(rng.choice({"L": L, "NL": NL, "ALL": tokens}[cls]))
            toks = tuple(toks)
            if toks in seen or all(index[t] in G["legalish_idx"] for t in toks):
                continue
            seen.add(toks)
            done += 1
            check_spec(acc, list(toks), rng)
    return acc


def main():
    args = _common.setup(__doc__)
    prepare()
    thorough = args.tier == "thorough"
    tokens, L = G["tokens"], G["legalish"]
    n2 = 1000000 if thorough else 300000
    n3 = 1000000 if thorough else 0
    total = Acc()

    # non-string specifications and the hand list: in the parent
    rng = random.Random(args.seed)
    for spec in NONSTRING:
        total.evals += 1
        total.nontrivial += 1
        outcome, ann = build(spec)
        if outcome != "ValueError":
            total.fail("F1:nonstring:%r" % (spec,), "non-ValueError" if outcome != "ok" else "accepted-illegal", (0, repr(spec)),
                       input=repr(spec), expected="ValueError", actual="%s: %s" % (outcome, ann), snippet=snip_build(spec))
    for spec, v in EXTRA:
        check_spec(total, spec, rng, extra_verdict=v)

    tasks = []
    step = 500
    for lo in range(0, len(tokens), step):
        tasks.append(("single", lo, min(lo + step, len(tokens)), args.seed * 7919 + lo))
    for lo in range(0, len(L), 4):
        tasks.append(("pairs", lo, min(lo + 4, len(L)), args.seed * 7919 + 100000 + lo))
    per = 10000
    for c in range(n2 // per):
        tasks.append(("sample", per, 2, args.seed * 7919 + 200000 + c, c, n2 // per))
    for c in range(n3 // per):
        tasks.append(("sample", per, 3, args.seed * 7919 + 300000 + c, c, n3 // per))
    if thorough:
        for a in range(len(L)):
            for lo in range(0, len(L), 64):
                tasks.append(("triples", a, lo, min(lo + 64, len(L)), args.seed * 7919 + 400000 + a * 1000 + lo))
    # workers are recycled so that the annotation cache of the code under test stays small
    with get_context("fork").Pool(max(1, min(7, (os.cpu_count() or 2) - 1)), maxtasksperchild=6) as pool:
        for acc in pool.imap_unordered(work, tasks, chunksize=1):
            total.merge(acc)

    tally = _common.Tally()
    tally.evaluations = total.evals
    prio = {"non-ValueError": 0, "accepted-illegal": 1, "rejected-legal": 1, "meaning": 2}

    def order(cid):
        n, key, d = total.classes[cid]
        return (0 if cid.startswith("F1:") else 1, prio.get(d["clause"], 3), key)

    for cid in sorted(total.classes, key=order)[: tally.max_failures]:
        n, _, d = total.classes[cid]
        d = dict(d)
        d["instances"] = n
        tally.failures.append(d)
    for spec in ["#*foo", "doc=?foo 3", "_foo ... #foo+1", "*3", "foo  #doc=3"]:
        o, a = build(spec)
        tally.samples.append({"spec": spec, "reference": ref_spec(spec)[0], "real": o if o != "ok" else stable(parsed(a))})
    bound = (
        "axis tokens = <=4 modifier characters from '#*_?' in any order incl. repeats (341 sequences) x optional 'doc=' prefix "
        "at any position among them x base in {foo, 3, foo+1, empty, ...}: %d tokens. "
        "S1: every single-token spec (exhaustive). S2: every ordered pair of the %d tokens the reference does not reject "
        "(exhaustive)%s. R2: %d distinct seeded random 2-token specs%s (one random position holds a token outside those %d, "
        "every other position a token from them w.p. 0.7, else from all tokens). "
        "Tokens are joined by single spaces and, for the whitespace law, by seeded runs of 1-3 spaces with 0-2 leading/trailing "
        "spaces (spaces only). Plus %d hand-written documented forms not producible by the grammar (commas, trailing '#', two "
        "multi-axis specifiers, blank specs) and the non-string specs %r. Built as Float[np.ndarray, spec]; probe set = all %d "
        "float32 shapes of rank 0..3 over sizes {1,2,3}, after binding foo=2 in the same jaxtyped('context')."
        % (len(tokens), len(L), (" S3: every ordered triple of those tokens (%d, exhaustive)" % len(L) ** 3) if thorough else "",
           n2, (" and %d random 3-token specs" % n3) if n3 else "", len(L), len(EXTRA), NONSTRING, len(PROBES))
    )
    rule = (
        "Reference parser written from docs/api/array.md + the statement decides legal / illegal / unspecified per spec. "
        "Illegal = repeated modifier, two multi-axis specifiers, comma without '(', trailing '#', '*' '_' or '?' on an integer or "
        "symbolic base, '#' together with '_', any modifier on '...', non-string. Unspecified (excluded from legality, meaning and "
        "kept for non-ValueError and the metamorphic laws): empty base with any modifier other than lone '_', 'doc=...', '?' "
        "together with '_'. Tokens with an empty base are also excluded from the modifier-order law (a trailing '#' is itself a "
        "documented illegal form). The meaning clause skips specs with '?' (needs a PyTree) and specs using foo both as axis and "
        "as '*foo'. Non-trivial = legality is fixed by the statement. Failures are grouped by class = tokens with sorted "
        "modifiers; the witness is the shortest spec of the class."
    )
    _common.emit(tally, bound=bound, rule=rule, exhaustive=False,
                 exhaustive_note="S1, S2, S3 (thorough), the hand list and the non-string specs are exhaustive; R2/R3 are seeded samples",
                 distinct_nontrivial=total.nontrivial, failing_evaluations=total.failing, failure_classes=len(total.classes),
                 wall_seconds=round(time.time() - args.t0, 1))


if __name__ == "__main__":
    main()
