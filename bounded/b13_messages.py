"""Bounded stand-in for C13: type-check errors are raised iff violated and describe the failure truthfully.

For every ill-typed call (decided by the brute-force oracle of b02_calls) of a generated function, under both
typecheckers and both values of jaxtyping_remove_typechecker_stack, the real exception is compared with what the
statement demands: class, stage sentence, function name, truthfulness of the blamed parameter, the printed
bindings, and __cause__.  Expected values come from the reference matcher in b02_calls (brute force over whole
assignments), never from jaxtyping.
"""
import ast
import itertools
import os
import random
import sys
import time
import warnings

_HERE = os.path.dirname(os.path.abspath(__file__))
if _HERE not in sys.path:
    sys.path.insert(0, _HERE)

import b02_calls as G  # noqa: E402

AXIS_HEADER = "The current values for each jaxtyping axis annotation are as follows."
TREE_HEADER = "The current values for each jaxtyping PyTree structure annotation are as follows."

# --------------------------------------------------------------------------------------
# annotation objects: (source expression, model node)
# --------------------------------------------------------------------------------------


def A(dims):
    return (G.ann_expr(dims), ("arr", dims))


def U(*dims):
    return ("Union[" + ", ".join(G.ann_expr(d) for d in dims) + "]", ("union", tuple(("arr", d) for d in dims)))


def T(dims, sname=None):
    inner = G.ann_expr(dims)
    if sname is None:
        return (f"PyTree[{inner}]", ("tree", ("arr", dims), None))
    return (f'PyTree[{inner}, "{sname}"]', ("tree", ("arr", dims), sname))


TREE_SHAPES = ("list1", "dict2", "nest2")
TREE_ARITY = {"list1": 1, "dict2": 2, "nest2": 2}


def materialize(node, value):
    import numpy as np

    if node[0] in ("arr", "union"):
        return np.zeros(tuple(value))
    skey, leaves = value
    xs = [np.zeros(tuple(s)) for s in leaves]
    if skey == "list1":
        return [xs[0]]
    if skey == "dict2":
        return {"k": xs[0], "l": xs[1]}
    if skey == "nest2":
        return (xs[0], [xs[1]])
    raise AssertionError(skey)


def value_source(node, value):
    if node[0] in ("arr", "union"):
        return f"np.zeros({tuple(value)!r})"
    skey, leaves = value
    xs = [f"np.zeros({tuple(s)!r})" for s in leaves]
    return {"list1": "[{0}]", "dict2": "{{'k': {0}, 'l': {1}}}", "nest2": "({0}, [{1}])"}[skey].format(*xs)


def candidate_shapes(dims):
    """shapes (rank 0..2, sizes 1..3) whose rank the dims can match at all."""
    toks = G.parsed(dims)
    n_single = sum(1 for t in toks if t[0] not in ("var", "anyvar"))
    has_multi = n_single != len(toks)
    return [s for s in G.ALL_SHAPES if (len(s) >= n_single if has_multi else len(s) == n_single)]


def candidate_values(node, rng, limit):
    if node[0] == "arr":
        c = candidate_shapes(node[1])
        return list(c)
    if node[0] == "union":
        # only shapes on which the FIRST alternative fails after binding (i != j); shapes satisfying several
        # alternatives are excluded (the statement does not say which alternative's bindings are "in force").
        return [s for s in G.ALL_SHAPES if len(s) == 2 and s[0] != s[1]]
    out = []
    leaf_c = candidate_shapes(node[1][1])
    for skey in TREE_SHAPES:
        for leaves in itertools.product(leaf_c, repeat=TREE_ARITY[skey]):
            out.append((skey, tuple(leaves)))
    rng.shuffle(out)
    return out[:limit]


# --------------------------------------------------------------------------------------
# expected message content (reference)
# --------------------------------------------------------------------------------------


def first_failing(cons_params, cons_ret):
    """process annotations in signature order; -> ('parameters', i) for the first i whose prefix [0..i] is
    unsatisfiable, ('return', None) if the parameters are jointly satisfiable but not with the return value,
    None if the call is well-typed."""
    for i in range(len(cons_params)):
        if not G.satisfiable(tuple(cons_params[: i + 1])):
            return ("parameters", i)
    if cons_ret is not None and not G.satisfiable(tuple(cons_params) + (cons_ret,)):
        return ("return", None)
    return None


def expected_bindings(cons_ok):
    """bindings in force after the successfully checked annotations `cons_ok`:
    -> (forced: name -> value that every satisfying assignment agrees on,
        free: names used by cons_ok whose value is not determined (may or may not be listed),
        structures: structure names bound)"""
    singles, variadics = set(), set()
    for node, _ in cons_ok:
        G.node_names(node, singles, variadics)
    vals = {n: set() for n in singles | variadics}
    for sigma, tau in G.solutions(cons_ok):
        for n, v in sigma.items():
            vals[n].add(v)
        for n, v in tau.items():
            vals[n].add(tuple(v))
    forced, free = {}, set()
    for n, vs in vals.items():
        if len(vs) == 1 and (n in singles or _has_plain_variadic(cons_ok, n)):
            forced[n] = next(iter(vs))
        else:
            free.add(n)
    return forced, free, set(G.structure_bindings(cons_ok))


def _has_plain_variadic(cons, name):
    def walk(node):
        if node[0] == "arr":
            return any(t[0] == "var" and t[1] == name and not t[2] for t in G.parsed(node[1]))
        if node[0] == "union":
            return any(walk(a) for a in node[1])
        return walk(node[1])

    return any(walk(n) for n, _ in cons)


def blame_is_truthful(cons_params, i):
    """parameter i 'really violates its annotation given the others': some jointly satisfiable set of other
    parameters becomes unsatisfiable when i is added (i belongs to a minimal unsatisfiable subset)."""
    others = [j for j in range(len(cons_params)) if j != i]
    for r in range(len(others) + 1):
        for sub in itertools.combinations(others, r):
            base = tuple(cons_params[j] for j in sub)
            if G.satisfiable(base) and not G.satisfiable(base + (cons_params[i],)):
                return True
    return False


def parse_message(msg):
    lines = msg.split("\n")
    out = dict(stage=None, function=None, blamed=None, axes={}, structures=[], axes_raw=[])
    first = lines[0]
    for stage, marker in (("parameters", "Type-check error whilst checking the parameters of "),
                          ("return", "Type-check error whilst checking the return value of ")):
        if first.startswith(marker):
            out["stage"] = stage
            out["function"] = first[len(marker):].rstrip(".")
    for ln in lines:
        if ln.startswith("The problem arose whilst typechecking parameter '"):
            out["blamed"] = ln.split("'")[1]
    section = None
    for ln in lines:
        if ln == AXIS_HEADER:
            section = "axes"
            continue
        if ln == TREE_HEADER:
            section = "trees"
            continue
        if section == "axes" and "=" in ln:
            n, v = ln.split("=", 1)
            out["axes_raw"].append(ln)
            try:
                out["axes"][n] = ast.literal_eval(v)
            except Exception:
                out["axes"][n] = v
        elif section == "trees" and "=" in ln:
            out["structures"].append(ln.split("=", 1)[0])
    return out


# --------------------------------------------------------------------------------------
# work items
# --------------------------------------------------------------------------------------


def _cases_for(anns, ret, rng, limit, tree_limit=12):
    per = [candidate_values(node, rng, tree_limit) for _, node in anns]
    if ret is not None:
        per.append(candidate_values(ret[1], rng, tree_limit))
    total = 1
    for c in per:
        total *= len(c)
    if total <= limit:
        return [tuple(c) for c in itertools.product(*per)]
    seen, out = set(), []
    while len(out) < limit:
        c = tuple(rng.choice(x) for x in per)
        if c not in seen:
            seen.add(c)
            out.append(c)
    return out


def special_templates():
    u = U("a a", "a b")
    t1 = T("a")
    tT = T("a", "T")
    tb = T("a b", "T")
    return [
        # Union whose first alternative fails after binding `a`
        ("union", [u, A("b")], None),
        ("union", [u, A("b")], A("a b")),
        ("union", [u, A("b"), A("a b")], None),
        ("union", [u, A("b a")], None),
        ("union", [u, A("*c b")], A("*c")),
        ("union", [A("a"), u], None),
        ("union", [A("a"), u, A("b")], None),
        ("union", [A("b"), u], A("b a")),
        ("union", [A("a")], u),
        ("union", [u, u], None),
        ("union", [A("a b"), u, A("a")], A("b")),
        # PyTree parameters (with and without a structure name)
        ("pytree", [t1, A("a")], None),
        ("pytree", [A("a"), t1], None),
        ("pytree", [A("a"), t1], A("a b")),
        ("pytree", [tT, tT], None),
        ("pytree", [tT, A("a"), tT], None),
        ("pytree", [A("a"), tT, A("b")], None),
        ("pytree", [tb, A("b a")], None),
        ("pytree", [A("b"), tb], A("a")),
        ("pytree", [tT, A("b")], T("b", "T")),
        ("pytree", [u, tT, A("b")], None),
    ]


def misuse_templates():
    """annotation misuse: a symbolic axis naming an axis that no earlier annotation bound (docs: "a symbolic
    expression cannot be evaluated unless all of the axes sizes it refers to have already been processed");
    every other annotation is satisfied by the chosen shapes.  -> (params, ret, values)"""
    out = []
    for d, s in (("b+1", (2,)), ("a+1", (2,)), ("2 b+1", (2, 3)), ("_ a+1", (1, 2))):
        out.append(([A(d)], None, (s,)))
        out.append(([A(d)], A("..."), (s, ())))
    # (first annotation, its shape, value it gives to `a` or None)
    firsts = (("a", (2,), 2), ("a 2", (3, 2), 3), ("*c a", (1, 2), 2), ("_", (3,), None), ("2", (2,), None))
    for d0, s0, aval in firsts:
        seconds = [("b+1", (3,)), ("b-1", (1,)), ("_ b+1", (2, 3))]
        if aval is not None:
            seconds.append(("a b+1", (aval, 3)))
        else:
            seconds.append(("a+1", (3,)))
        for d1, s1 in seconds:
            out.append(([A(d0), A(d1)], None, (s0, s1)))
            out.append(([A(d0)], A(d1), (s0, s1)))
            out.append(([A(d0), A("...")], A(d1), (s0, (2,), s1)))
    out.append(([A("a+1"), A("a")], None, ((3,), (2,))))  # used before its binder
    out.append(([A("b"), A("a+1"), A("a")], None, ((1,), (3,), (2,))))
    return out


def make_items(tier, seed):
    rng = random.Random(seed * 104729 + (11 if tier == "quick" else 12))
    items = []
    # family "generator": the C02 generator
    if tier == "quick":
        plan = {1: 60, 2: 330, 3: 330}
        n_guided, n_random, special_limit = 4, 3, 60
    else:
        plan = {1: 500, 2: 3500, 3: 4500, 4: 2500}
        n_guided, n_random, special_limit = 6, 4, 700
    seen = set()
    for n_params, count in plan.items():
        made = 0
        while made < count:
            params, ret = G.random_signature(rng, n_params)
            if (params, ret) in seen:
                continue
            seen.add((params, ret))
            made += 1
            cases = G.sample_shape_tuples(rng, list(params) + [ret], n_guided, n_random)
            items.append(dict(family="generator", kind="typecheck", anns=[A(d) for d in params], ret=A(ret), cases=cases))
    for fam, anns, ret in special_templates():
        cases = _cases_for(anns, ret, rng, special_limit)
        items.append(dict(family=fam, kind="typecheck", anns=anns, ret=ret, cases=cases))
    for anns, ret, shapes in misuse_templates():
        items.append(dict(family="misuse", kind="misuse", anns=anns, ret=ret, cases=[tuple(shapes)]))
    return items


# --------------------------------------------------------------------------------------
# running one item against the real code
# --------------------------------------------------------------------------------------


def snippet(order, exprs, ret_expr, nodes, ret_node, case, checker, remove_stack, passing="pos"):
    tc = "typeguard.typechecked" if checker == "typeguard" else "beartype.beartype"
    lines = [
        "import numpy as np, typeguard, beartype, jaxtyping",
        "from typing import Union",
        "from jaxtyping import Float, PyTree, jaxtyped",
        f'jaxtyping.config.update("jaxtyping_remove_typechecker_stack", {remove_stack})',
    ]
    if ret_expr is not None:
        lines.append(f"RET = {value_source(ret_node, case[-1])}")
    lines.append(f"@jaxtyped(typechecker={tc})")
    lines.append(G.function_source("f", order, exprs, ret_expr, body="return RET" if ret_expr is not None else "pass").rstrip())
    if passing == "pos":
        args = ", ".join(value_source(nodes[p], v) for p, v in zip(order, case))
    else:
        args = ", ".join(f"{p}={value_source(nodes[p], v)}" for p, v in zip(order, case))
    lines.append("try:")
    lines.append(f"    f({args})")
    lines.append("except Exception as e:")
    lines.append("    print(type(e), e, repr(e.__cause__))")
    return "\n".join(lines)


def run_item(item):
    import jaxtyping

    anns, ret = item["anns"], item["ret"]
    n = len(anns)
    order = [f"p{i}" for i in range(n)]
    exprs = {p: anns[i][0] for i, p in enumerate(order)}
    nodes = {p: anns[i][1] for i, p in enumerate(order)}
    ret_expr = ret[0] if ret is not None else None
    ret_node = ret[1] if ret is not None else None
    src = G.function_source("f", order, exprs, ret_expr, body="return RET" if ret is not None else "pass")
    # every third function also has a never-passed, un-annotated keyword-only parameter with an UNHASHABLE default (a list):
    # it must not change anything about the error (the blame / message machinery may not hash signatures or defaults)
    with_unhashable_default = (sum(map(ord, src)) % 3 == 0) and n > 0
    if with_unhashable_default:
        head, rest = src.split("\n", 1)
        close = head.rindex(")")
        src = head[:close] + ", *, _scratch=UNHASHABLE_DEFAULT" + head[close:] + "\n" + rest
    fns = {}
    for checker in ("typeguard", "beartype"):
        g = G.base_globals()
        g["UNHASHABLE_DEFAULT"] = [1, 2]
        exec(src, g)
        fns[checker] = (G.decorate(g["f"], "new", checker), g)
    evals = 0
    keys, failures = [], []
    sample = None
    n_ill = 0
    qual = f"{G.GEN_MODULE}.f"
    # beartype tries the members of a Union in an order that depends on object addresses (it differs from process to
    # process), so WHICH bindings are in force after a Union parameter is not reproducible under beartype: the
    # bindings clause is evaluated under typeguard only for functions that mention a Union (all other clauses: both).
    has_union = any(_has_union(nd) for nd in list(nodes.values()) + ([ret_node] if ret is not None else []))

    def fail(case_id, clause, case, checker, remove_stack, expected, actual, passing="pos"):
        failures.append(
            dict(
                case=case_id, clause=clause, dedupe=(src, repr(case)),
                input=dict(signature=src.splitlines()[0], values=[_jsonable(v) for v in case], checker=checker,
                           remove_typechecker_stack=remove_stack, passing=passing),
                expected=expected, actual=actual,
                snippet=snippet(order, exprs, ret_expr, nodes, ret_node, case, checker, remove_stack, passing),
            )
        )

    for case_idx, case in enumerate(item["cases"]):
        cons_params = tuple((nodes[p], v) for p, v in zip(order, case))
        cons_ret = (ret_node, case[-1]) if ret is not None else None
        if item["kind"] == "misuse":
            for checker in ("typeguard", "beartype"):
                fn, g = fns[checker]
                for remove_stack in (False, True):
                    jaxtyping.config.update("jaxtyping_remove_typechecker_stack", remove_stack)
                    for passing in ("pos", "kw"):
                        if ret is not None:
                            g["RET"] = materialize(ret_node, case[-1])
                        vals = [materialize(nodes[p], v) for p, v in zip(order, case)]
                        got, exc = G.call(fn, vals, {}) if passing == "pos" else G.call(fn, [], dict(zip(order, vals)))
                        evals += 1
                        if not isinstance(exc, jaxtyping.AnnotationError) or isinstance(exc, jaxtyping.TypeCheckError):
                            where = "return" if (ret is not None and _uses_symbolic_any(ret_node)) else "parameter"
                            fail(f"misuse-not-AnnotationError:{where}:got-{got}", "annotation-error-surfaces", case, checker, remove_stack,
                                 "jaxtyping.AnnotationError", got if exc is None else f"{got}: {str(exc)[:200]}", passing)
            keys.append(("misuse", src, case))
            n_ill += 1
            continue
        where = first_failing(cons_params, cons_ret)
        if where is None:
            # well-typed: must not raise (C13 'iff'); message clauses do not apply
            for checker in ("typeguard", "beartype"):
                fn, g = fns[checker]
                if ret is not None:
                    g["RET"] = materialize(ret_node, case[-1])
                got, exc = G.call(fn, [materialize(nodes[p], v) for p, v in zip(order, case)], {})
                evals += 1
                if got != "accept":
                    fail(f"raised-though-satisfiable:{item['family']}:got-{got}", "raised-iff-violated", case, checker, False,
                         "no exception", f"{got}: {str(exc)[:300]}")
            continue
        n_ill += 1
        stage, idx = where
        cons_ok = cons_params[:idx] if stage == "parameters" else cons_params
        forced, free, structs = expected_bindings(cons_ok)
        nontrivial = len(cons_ok) > 0
        if nontrivial:
            keys.append((item["family"], src, case))
        for checker in ("typeguard", "beartype"):
            fn, g = fns[checker]
            # positional / keyword passing alternates with the case index, shifted by one between the checkers
            passing = ("pos", "kw")[(case_idx + (checker == "beartype")) % 2]
            for remove_stack in (False, True):
                jaxtyping.config.update("jaxtyping_remove_typechecker_stack", remove_stack)
                if ret is not None:
                    g["RET"] = materialize(ret_node, case[-1])
                vals = [materialize(nodes[p], v) for p, v in zip(order, case)]
                got, exc = G.call(fn, vals, {}) if passing == "pos" else G.call(fn, [], dict(zip(order, vals)))
                evals += 1
                if type(exc) is not jaxtyping.TypeCheckError or not isinstance(exc, TypeError):
                    fail(f"error-class:{item['family']}:{stage}:got-{got}", "error-class", case, checker, remove_stack,
                         "jaxtyping.TypeCheckError", got if exc is None else f"{got}: {str(exc)[:300]}", passing=passing)
                    continue
                msg = str(exc)
                m = parse_message(msg)
                if sample is None and nontrivial:
                    sample = dict(signature=src.splitlines()[0], values=[_jsonable(v) for v in case], checker=checker,
                                  expected=dict(stage=stage, bindings={k: _jsonable(v) for k, v in forced.items()}, structures=sorted(structs)),
                                  printed=dict(stage=m["stage"], blamed=m["blamed"], bindings=m["axes_raw"], structures=m["structures"]))
                if m["stage"] != stage:
                    fail(f"stage:{item['family']}:expected-{stage}:got-{m['stage']}", "stage-sentence", case, checker, remove_stack, stage, msg[:400], passing=passing)
                if m["function"] != qual:
                    fail(f"function-name:{item['family']}:{stage}", "function-name", case, checker, remove_stack, qual, msg.split(chr(10))[0], passing=passing)
                if stage == "parameters" and m["stage"] == "parameters":
                    if m["blamed"] is None:
                        fail(f"blamed-parameter:{item['family']}:none-named", "blamed-parameter", case, checker, remove_stack,
                             "a parameter that violates its annotation given the others", msg[:400], passing=passing)
                    elif m["blamed"] not in order or not blame_is_truthful(cons_params, order.index(m["blamed"])):
                        fail(f"blamed-parameter:{item['family']}:innocent-parameter-named", "blamed-parameter", case, checker, remove_stack,
                             f"one of the parameters that conflict with the others (first failing in signature order: {order[idx]})", f"blamed {m['blamed']}", passing=passing)
                # bindings: exactly those in force when the failure was detected
                printed = m["axes"]
                extra = sorted(k for k in printed if k not in forced and k not in free)
                missing = sorted(k for k in forced if k not in printed)
                wrong = sorted(k for k in forced if k in printed and _norm(printed[k]) != _norm(forced[k]))
                s_extra = sorted(set(m["structures"]) - structs)
                s_missing = sorted(structs - set(m["structures"]))
                kinds = []
                if extra or s_extra:
                    kinds.append("extra")
                if missing or s_missing:
                    kinds.append("missing")
                if wrong:
                    kinds.append("wrong")
                if kinds and not (checker == "beartype" and has_union):
                    fail(
                        f"F3:stale-bindings:{item['family']}:{stage}:{'+'.join(kinds)}", "bindings-exact", case, checker, remove_stack,
                        dict(bindings={k: _jsonable(v) for k, v in sorted(forced.items())}, undetermined_may_appear=sorted(free), structures=sorted(structs),
                             failing=(order[idx] if stage == "parameters" else "return value")),
                        dict(printed=m["axes_raw"], printed_structures=m["structures"], extra=extra + s_extra, missing=missing + s_missing, wrong=wrong), passing=passing)
                has_cause = exc.__cause__ is not None
                if has_cause != (not remove_stack):
                    fail(f"cause:{item['family']}:{stage}:remove_stack={remove_stack}:cause-{'set' if has_cause else 'missing'}", "cause-iff-stack-kept",
                         case, checker, remove_stack, f"__cause__ {'set' if not remove_stack else 'None'}", f"__cause__={exc.__cause__!r}"[:200], passing=passing)
    jaxtyping.config.update("jaxtyping_remove_typechecker_stack", False)
    return dict(evals=evals, keys=keys, failures=failures, sample=sample, n_ill=n_ill, family=item["family"])


def _has_union(node):
    if node[0] == "union":
        return True
    if node[0] == "tree":
        return _has_union(node[1])
    return False


def _norm(v):
    return tuple(v) if isinstance(v, (tuple, list)) else v


def _jsonable(v):
    if isinstance(v, tuple):
        return [_jsonable(x) for x in v]
    return v


def _uses_symbolic_any(node):
    if node[0] == "arr":
        return any(t[0] == "sym" for t in G.parsed(node[1]))
    if node[0] == "union":
        return any(_uses_symbolic_any(a) for a in node[1])
    return _uses_symbolic_any(node[1])



def _worker(chunk):
    warnings.simplefilter("ignore")
    return [run_item(it) for it in chunk]


def main():
    import _common

    a = _common.setup("C13 bounded stand-in: error messages are truthful")
    procs = max(1, min(6, (os.cpu_count() or 3) - 2))  # workers; + this parent + the spawn resource tracker = at most 8 processes
    items = make_items(a.tier, a.seed)
    results = G.run_parallel(_worker, items, a.repo, procs, chunk=6)
    tally = _common.Tally()
    failures = []
    ill = {}
    fam_sampled = set()
    for it, r in zip(items, results):
        tally.evaluations += r["evals"]
        tally.distinct.update((k[0], k[1], repr(k[2])) for k in r["keys"])
        failures.extend(r["failures"])
        ill[r["family"]] = ill.get(r["family"], 0) + r["n_ill"]
        if r["sample"] is not None and len(tally.samples) < 5 and (r["family"] not in fam_sampled or r["family"] == "generator") \
                and sum(1 for s in tally.samples if s.get("family") == "generator") < 3:
            fam_sampled.add(r["family"])
            s = dict(r["sample"])
            s["family"] = r["family"]
            tally.samples.append(s)
    G.merge_failures(tally, failures)
    n_gen = sum(1 for it in items if it["family"] == "generator")
    n_sp = sum(1 for it in items if it["family"] in ("union", "pytree"))
    n_mis = sum(1 for it in items if it["family"] == "misuse")
    arities = "1..3" if a.tier == "quick" else "1..4"
    max_cases = max(len(it["cases"]) for it in items if it["family"] == "generator")
    max_special = max(len(it["cases"]) for it in items if it["family"] in ("union", "pytree"))
    bound = (
        f"generator family: {n_gen} seeded-sample functions with {arities} Float[np.ndarray, dims] parameters + return annotation (dims = <=2 tokens of "
        "{a,b,#a,_,2,*c,*#c,...,a+1}, <=1 multi-axis token, a+1 only after a parameter holding a plain `a`), "
        f"<= {max_cases} argument/return shape tuples each (rank 0..2, sizes 1..3), of which the oracle-ill-typed ones "
        f"({ill.get('generator', 0)}) are checked x {{typeguard 2.13, beartype}} x remove_typechecker_stack in {{False, True}} (new decorator spelling; positional / keyword passing alternating with the case index, shifted by one between the checkers); "
        f"special families: {n_sp} fixed templates with a Union[Float['a a'], Float['a b']] parameter/return (only shapes (i,j), i!=j, i.e. first alternative "
        "fails after binding a) or a PyTree[Float[...]] / PyTree[Float[...], 'T'] parameter/return (tree shapes [x], {'k':x,'l':y}, (x,[y])), "
        f"values enumerated (capped by seeded sampling at {max_special} per template), ill-typed ones checked "
        f"(union {ill.get('union', 0)}, pytree {ill.get('pytree', 0)}); "
        f"misuse family: {n_mis} fixed functions with a symbolic axis (b+1, a+1, b-1) naming an axis no earlier annotation bound, all other annotations satisfied, "
        "x both checkers x both switch values x positional/keyword. Well-typed cases of the same enumeration are only checked not to raise."
    )
    rule = (
        "Expected, from the statement: exception class is exactly jaxtyping.TypeCheckError (a TypeError); stage = 'parameters' iff the parameters alone are "
        "unsatisfiable (brute-force oracle of b02_calls), else 'return value'; first line names b02gen.f; a named parameter must belong to a minimal "
        "unsatisfiable subset of the parameters (some satisfiable set of other parameters becomes unsatisfiable when it is added) and one must be named in the "
        "parameter stage; printed 'name=value' lines must equal the bindings FORCED by the annotations that precede the first failing one in signature order "
        "(for a return failure: all parameters), computed by enumerating all satisfying assignments of that prefix: a name with one possible value must be "
        "printed with it, a name used by the prefix but left undetermined (e.g. only `#a` axes of size 1, only '*#c' uses) may or may not be printed, any other "
        "name (in particular one only the failing annotation mentions) must not be printed; same for PyTree structure names; __cause__ is set iff "
        "remove_typechecker_stack is False; misuse must raise jaxtyping.AnnotationError and not TypeCheckError. "
        "Excluded as ambiguous: Union shapes satisfying more than one alternative; misuse where another annotation is also violated. "
        "Distinct/non-trivial = an ill-typed (function, values) case whose failure is detected after >=1 annotation was checked successfully, or a misuse case. "
        "`occurrences` of a failure counts distinct (function, values) inputs (not x checker x switch). beartype tries Union members in an address-dependent order "
        "(differs between processes), so for functions mentioning a Union the bindings clause is evaluated under typeguard only; every other clause under both checkers."
    )
    _common.emit(tally, bound=bound, rule=rule, exhaustive=False, wall_s=round(time.time() - a.t0, 1), processes=procs + 2, checked_cases=ill)


if __name__ == "__main__":
    main()
