"""Unit: jaxtyping._pytest_plugin.pytest_configure -- the pytest entry point of the import hook (C11).

C11 quantifies over "the API, the pytest option and the IPython magic". Contract of the pytest option
`--jaxtyping-packages=p1,p2,...,checker`, proved for every option string (the split result is a symbolic sequence):

  no / empty option                       => nothing is installed, returns normally
  otherwise  pieces = [x.strip() for x in value.split(",")]   (the comprehension is executed at an arbitrary index)
             names = all pieces but the last, checker = the last piece
             some name already in sys.modules  => RuntimeError, nothing installed
             else install_import_hook(names, checker) is called exactly once with exactly these, and its manager is not uninstalled
The IPython magic (class body with decorators, filter/lambda) is outside the interpretable subset: bounded (b10/b11).
"""
from __future__ import annotations

import ast

import z3

from ..engine import Engine, Raised, is_raised
from ..source import Module
from ..values import BOOL, INT, NONE, NORMAL, STR, U, Exc, Fn, NoneV, Obj, Opaque, Outcome, Ref, State, Tup, Unsupported, Z

NAME = "entrypoints"
REL = "jaxtyping/_pytest_plugin.py"
SEQS = z3.SeqSort(STR)


def build(repo=None):
    mod = Module(REL, repo)
    fn = mod.func("pytest_configure")
    paths = 0
    obligations = []
    strip = z3.Function("py_str_strip", STR, STR)
    raw = z3.Const("split_pieces", SEQS)          # value.split(",")
    pieces = z3.Const("stripped_pieces", SEQS)    # [x.strip() for x in raw]  (same length, element-wise strip: the comprehension obligation)
    i = z3.Int("i")
    AnyImported = z3.Bool("some_named_package_is_already_imported")
    for opt in ("absent", "empty", "given"):
        eng = Engine(mod)
        st = State()
        st.ghost.update(installs=[], comp_ok=None, sorted_over=None)
        value = z3.String("option_value")
        optv = {"absent": NONE, "empty": Z("str", z3.StringVal("")), "given": Z("str", value)}[opt]
        if opt == "given":
            st.pc += [z3.Length(value) > 0, z3.Length(raw) >= 1, z3.Length(pieces) == z3.Length(raw)]
        config = Opaque("config")

        def m_getoption(e, s, recv, args, kw, nd, _v=optv):
            if recv is config:
                ok = len(args) >= 1 and isinstance(args[0], Z) and args[0].kind == "str" and z3.is_string_value(z3.simplify(args[0].t)) and z3.simplify(args[0].t).as_string() in ("jaxtyping_packages", "--jaxtyping-packages")
                e.oblige(s, "C11:pytest:reads-the-jaxtyping-packages-option", z3.BoolVal(bool(ok)))
                return [(s, _v)]
            return None

        def m_split(e, s, recv, args, kw, nd):
            if isinstance(recv, Z) and recv.kind == "str" and recv.t.eq(value):
                ok = len(args) == 1 and isinstance(args[0], Z) and z3.is_string_value(z3.simplify(args[0].t)) and z3.simplify(args[0].t).as_string() == ","
                e.oblige(s, "C11:pytest:the-option-is-split-at-commas", z3.BoolVal(bool(ok)))
                return [(s, Z("seq:str", raw))]
            return None

        def listcomp(e, s, node):
            g = node.generators[0]
            outs = []
            for s0, it in e.ev(g.iter, s):
                if not (isinstance(it, Z) and it.kind == "seq:str" and it.t.eq(raw)) or len(node.generators) != 1 or not isinstance(g.target, ast.Name):
                    raise Unsupported("pytest_configure: the comprehension does not run over value.split(',')")
                s1 = s0.clone()
                s1.pc += [0 <= i, i < z3.Length(raw)]
                s1.env = dict(s1.env)
                s1.env[g.target.id] = Z("str", raw[i])
                cond = z3.BoolVal(True)
                for c in g.ifs:
                    (s1, cv), = e.ev(c, s1)
                    cond = z3.And(cond, e.truth(s1, cv))
                (s2, ev_), = e.ev(node.elt, s1)
                e.oblige(s2, "C11:pytest:every-comma-separated-piece-is-kept-and-stripped-of-surrounding-whitespace",
                         z3.And(cond, ev_.t == strip(raw[i])) if isinstance(ev_, Z) and ev_.kind == "str" else z3.BoolVal(False))
                s3 = s0.clone()
                s3.obl = s2.obl
                outs.append((s3, Z("seq:str", pieces)))
            return outs

        def unpack(e, s, elts, v):
            # *packages, typechecker = packages
            if isinstance(v, Z) and v.kind == "seq:str" and len(elts) == 2 and isinstance(elts[0], ast.Starred) and isinstance(elts[1], ast.Name) and isinstance(elts[0].value, ast.Name):
                s1 = s.clone()
                n = z3.Length(v.t)
                s1.env[elts[0].value.id] = Z("seq:str", z3.Extract(v.t, 0, n - 1))
                s1.env[elts[1].id] = Z("str", v.t[n - 1])
                return [(s1, NORMAL)]
            if isinstance(v, Z) and v.kind == "seq:str" and len(elts) == 2 and isinstance(elts[1], ast.Starred) and isinstance(elts[0], ast.Name) and isinstance(elts[1].value, ast.Name):
                s1 = s.clone()
                n = z3.Length(v.t)
                s1.env[elts[0].id] = Z("str", v.t[0])
                s1.env[elts[1].value.id] = Z("seq:str", z3.Extract(v.t, 1, n - 1))
                return [(s1, NORMAL)]
            return None

        def m_sorted(e, s, args, kw, nd):
            g = args[0] if args else None
            s1 = s.clone()
            if isinstance(g, Fn) and isinstance(g.node, ast.GeneratorExp) and len(g.node.generators) == 1:
                gn = g.node.generators[0]
                src = (g.closure or {}).get(gn.iter.id) if isinstance(gn.iter, ast.Name) else None
                cond_ok = len(gn.ifs) == 1 and ast.unparse(gn.ifs[0]).replace(" ", "") == f"{gn.target.id}insys.modules" and ast.unparse(g.node.elt) == gn.target.id
                s1.ghost["sorted_over"] = (src, cond_ok)
            r = Opaque("already-imported-names")
            e._memo_truth[r.t.get_id()] = AnyImported
            return [(s1, r)]

        def m_install(e, s, args, kw, nd):
            s1 = s.clone()
            mgr = Opaque("hook-manager")
            s1.ghost["installs"] = s1.ghost["installs"] + [(tuple(args), dict(kw), mgr)]
            return [(s1, mgr)]

        eng.method_models.update({"getoption": m_getoption, "split": m_split, "__listcomp__": listcomp, "__unpack__": unpack,
                                  "uninstall": lambda e, s, recv, a, kw, nd: (e.oblige(s, "C11:pytest:the-installed-hook-stays-installed", z3.BoolVal(False)), [(s, NONE)])[1] if isinstance(recv, Opaque) and recv.tag == "hook-manager" else None,
                                  "format": lambda e, s, recv, a, kw, nd: [(s, Z("str", z3.FreshConst(STR, "message"), tag="fstr"))], "join": lambda e, s, recv, a, kw, nd: [(s, Z("str", z3.FreshConst(STR, "joined"), tag="fstr"))]})
        eng.globals.update({"sorted": Fn("sorted", model=m_sorted), "install_import_hook": Fn("install_import_hook", model=m_install), "sys": Opaque("module:sys", attrs={"modules": Opaque("sys.modules")})})
        p = [a.arg for a in fn.args.args]
        if len(p) != 1:
            raise Unsupported("pytest_configure signature")
        st.env = {p[0]: config}
        st.path = [f"option:{opt}"]
        for s1, o in eng.run(fn.body, st):
            paths += 1
            inst = s1.ghost["installs"]
            if opt in ("absent", "empty"):
                eng.oblige(s1, "C11:pytest:without-the-option-nothing-is-installed", z3.BoolVal(o.kind in ("normal", "return") and not inst))
                continue
            if o.kind == "raise":
                so = s1.ghost.get("sorted_over")
                good = isinstance(o.val, Exc) and o.val.classes() == frozenset(["RuntimeError"]) and not inst and so is not None and so[1] and isinstance(so[0], Z) and so[0].kind == "seq:str"
                eng.oblige(s1, "C11:pytest:RuntimeError-exactly-when-a-named-package-is-already-imported(nothing-installed)",
                           z3.And(AnyImported, so[0].t == z3.Extract(pieces, 0, z3.Length(pieces) - 1)) if good else z3.BoolVal(False))
                continue
            good = o.kind in ("normal", "return") and len(inst) == 1 and len(inst[0][0]) == 2 and not inst[0][1] and isinstance(inst[0][0][0], Z) and inst[0][0][0].kind == "seq:str" and isinstance(inst[0][0][1], Z) and inst[0][0][1].kind == "str"
            n = z3.Length(pieces)
            eng.oblige(s1, "C11:pytest:installs-exactly-one-hook-over-all-pieces-but-the-last-with-the-last-piece-as-checker",
                       z3.And(inst[0][0][0].t == z3.Extract(pieces, 0, n - 1), inst[0][0][1].t == pieces[n - 1], z3.Not(AnyImported)) if good else z3.BoolVal(False))
        for ob in st.obl:
            ob = dict(ob)
            ob.setdefault("kind", "vc")
            ob["serves"] = ["C11"]
            ob["function"] = "pytest_configure"
            obligations.append(ob)
    obligations.append({"clause": "canary:pytest-option-assumptions-satisfiable", "kind": "canary", "pc": [z3.Length(raw) >= 2, z3.Length(pieces) == z3.Length(raw), 0 <= i, i < z3.Length(raw), AnyImported], "goal": z3.BoolVal(False), "path": [], "meta": {}})
    return {"unit": NAME, "functions": [{"qualname": "jaxtyping._pytest_plugin.pytest_configure", "sha256_16": mod.sha(fn), "lines": [fn.lineno, fn.end_lineno]}],
            "obligations": obligations, "paths": paths, "stats": {},
            "assumptions": [
                "config.getoption returns None, '' or the option string; str.split(',') returns at least one piece; a list comprehension maps its element expression over the iterable in order",
                "`x in sys.modules` over the names is summarised by one Boolean (some named package is already imported)",
                "install_import_hook by its contract (unit hook); the IPython magic is not under contract (bounded stand-ins b10/b11)",
            ]}
